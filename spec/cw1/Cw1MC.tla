------------------------------ MODULE Cw1MC ------------------------------
(***************************************************************************)
(* Reference machine of Cw1 for TLC: exhaustive model checking of the      *)
(* property formulas (MC mode) and generation of schedules that are then   *)
(* executed on the real contracts (Gen mode: failing calls are part of the *)
(* alphabet, the schedule is a history variable hidden by the VIEW and     *)
(* printed once per behaviour).                                            *)
(***************************************************************************)
EXTENDS Cw1, Json, SequencesExt

CONSTANTS
  Flavours,    \* subset of {"whitelist", "subkeys"} tried at instantiation
  InitAdmins,  \* set of admin lists tried at instantiation
  InitMutable, \* set of BOOLEAN
  AdminArgs,   \* admin lists used as UpdateAdmins arguments (incl. empty, duplicates, dropping the caller)
  Callers,     \* addresses that make calls
  GrantKeys,   \* addresses named in IncreaseAllowance / DecreaseAllowance
  PermKeys,    \* addresses named in SetPermissions
  PermArgs,    \* permission records used as arguments
  Amts,        \* amounts of grants
  Exps,        \* expirations used as arguments (besides "keep")
  MaxC,        \* u128 bound in model units
  MaxH,        \* clock horizon
  ExecLists,   \* message lists submitted to Execute
  ProbeMsgs,   \* messages asked of CanExecute
  SlackCap,    \* cap of the history counter (0 = inductive-step check)
  AdvW,        \* weight of the clock in random walks
  GenMode,     \* TRUE: keep the schedule, include failing calls
  GenDepth,    \* schedule length at which a behaviour is printed (Gen mode)
  GenFail,     \* Gen mode: failing calls are part of the alphabet (random walks); FALSE for the sampled BFS
  SampleK      \* sampled BFS: every SampleK-th distinct state's path is printed

VARIABLES stale,   \* [Addr -> BOOLEAN] an expired allowance is still stored (not observable)
          sched, cfgv

mcvars == <<vars, stale, sched, cfgv>>
View == <<flavour, admins, mutable, al, perm, now, slack, stale, IF GenMode /\ GenFail THEN Len(sched) ELSE 0>>
\* transition cover: one BFS path per distinct (state, call that led to it), so that calls which lead to an
\* already known state (no-op calls, self-transfers, alternative ways into a state) get a schedule too
ViewEv == <<View, ev>>

ExpArgs == Exps \cup {Keep}

Init ==
  \E f \in Flavours, a \in InitAdmins, m \in InitMutable :
    /\ flavour = f /\ admins = SeqSet(a) /\ mutable = m
    /\ al = [k \in Addr |-> NoAl] /\ perm = [k \in Addr |-> NoPerm]
    /\ now = [h |-> 0, t |-> 0] /\ out = <<>>
    /\ slack = [k \in Addr |-> ZeroC]
    /\ stale = [k \in Addr |-> FALSE]
    /\ cfgv = [flavour |-> f, admins |-> a, mutable |-> m, scale |-> 0]
    /\ ev = [act |-> "reset", by |-> "env", ok |-> TRUE]
    /\ sched = <<>>

Ev(a, by, args) == [act |-> a, by |-> by, args |-> args, ok |-> TRUE, ret |-> TRUE, can |-> FALSE]

\* (retFail: what the proxy's entry point returns when the transaction fails; evaluated only then)
CallR(e, action, staleNext, retFail) ==
  \/ /\ action
     /\ ev' = [e EXCEPT !.ok = TRUE]
     /\ UNCHANGED <<now, cfgv>>
     /\ slack' = SlackAfter(ev', out', admins, al, al', SlackCap)
     /\ stale' = staleNext
     /\ sched' = IF GenMode THEN Append(sched, e) ELSE sched
  \/ /\ GenMode /\ GenFail /\ ~ENABLED action
     /\ ev' = [e EXCEPT !.ok = FALSE, !.ret = retFail]
     /\ UNCHANGED <<flavour, admins, mutable, al, perm, now, slack, stale, cfgv>>
     /\ out' = <<>>
     /\ sched' = Append(sched, e)

\* one call: taken as a real step when the reference guard holds; in Gen mode a call whose guard
\* is false is a failing call (state unchanged) that still goes into the schedule
Call(e, action, staleNext) == CallR(e, action, staleNext, FALSE)

Ready == ~(GenMode /\ Len(sched) >= GenDepth)

AExecute == Ready /\ \E by \in Callers, ms \in ExecLists :
  CallR([Ev("execute", by, [msgs |-> ms]) EXCEPT !.can = IF Len(ms) = 1 THEN RefCan(by, ms[1]) ELSE FALSE],
        DoExecute(by, ms), stale, ENABLED DoRelay(by, ms))
AFreeze == Ready /\ \E by \in Callers :
  Call(Ev("freeze", by, [x |-> 0]), DoFreeze(by), stale)
AUpdateAdmins == Ready /\ \E by \in Callers, lst \in AdminArgs :
  Call(Ev("update_admins", by, [admins |-> lst]), DoUpdateAdmins(by, lst), stale)
AIncrease == Ready /\ \E by \in Callers, k \in GrantKeys, d \in Denom, x \in Amts, e \in ExpArgs :
  Call(Ev("increase_allowance", by, [spender |-> k, denom |-> d, amt |-> x, exp |-> e]),
       DoIncrease(by, k, d, x, e, stale[k], MaxC), [stale EXCEPT ![k] = FALSE])
ADecrease == Ready /\ \E by \in Callers, k \in GrantKeys, d \in Denom, x \in Amts, e \in ExpArgs :
  Call(Ev("decrease_allowance", by, [spender |-> k, denom |-> d, amt |-> x, exp |-> e]),
       DoDecrease(by, k, d, x, e), stale)
ASetPerm == Ready /\ \E by \in Callers, k \in PermKeys, p \in PermArgs :
  Call(Ev("set_permissions", by, [spender |-> k, d |-> p.d, u |-> p.u, r |-> p.r, w |-> p.w]),
       DoSetPerm(by, k, p), stale)

\* CanExecute{sender,msg} and a dry run of Execute{[msg]} on the same state: nothing changes
ACanq == Ready /\ \E by \in Callers, m \in ProbeMsgs :
  LET would == ENABLED DoRelay(by, <<m>>) IN
  /\ ev' = [act |-> "canq", by |-> by, args |-> [msgs |-> <<m>>], ok |-> would, ret |-> would, can |-> RefCan(by, m)]
  /\ out' = IF would THEN <<m>> ELSE <<>>
  /\ UNCHANGED <<flavour, admins, mutable, al, perm, now, slack, stale, cfgv>>
  /\ sched' = IF GenMode THEN Append(sched, [ev' EXCEPT !.ok = TRUE]) ELSE sched

Advance ==
  /\ Ready /\ now.h < MaxH
  /\ \E w \in 1..AdvW :
     /\ now' = [h |-> now.h + 1, t |-> now.t + 1]
     /\ al' = AlAt(al, now')
     /\ stale' = [k \in Addr |-> stale[k] \/ (al[k].has /\ Expired(al[k].exp, now'))]
     /\ ev' = Ev("advance", "env", [dh |-> 1, dt |-> 1])
     /\ out' = <<>>
     /\ slack' = SlackAfter(ev', out', admins, al, al', SlackCap)
     /\ UNCHANGED <<flavour, admins, mutable, perm, cfgv>>
     /\ sched' = IF GenMode THEN Append(sched, ev') ELSE sched

\* the chain admin installs the current code again: nothing changes
AMigrate ==
  /\ Ready /\ flavour = "subkeys"
  /\ ev' = Ev("migrate", "creator", [x |-> 0])
  /\ out' = <<>>
  /\ UNCHANGED <<flavour, admins, mutable, al, perm, now, slack, stale, cfgv>>
  /\ sched' = IF GenMode THEN Append(sched, ev') ELSE sched

Next == \/ AMigrate \/ Advance \/ AExecute \/ AFreeze \/ AUpdateAdmins \/ AIncrease \/ ADecrease \/ ASetPerm \/ ACanq

Spec == Init /\ [][Next]_mcvars

\* ---------------------------------------------------------------- properties (boxed)
A_C07 == [][C07_RelayOnlyAuthorised /\ C07_RelayExact /\ C07_SelfExecuteRefused /\ C07_FailRelaysNothing /\ C07_OnlyExecuteRelays]_vars
A_C08 == [][C08_SpendExact /\ C08_AllowanceWriters /\ C08_IncreaseBounded /\ C08_DecreaseSaturating
            /\ C08_GrantExpiry /\ C08_OthersUntouched]_vars
A_C16 == [][C16_Predicts /\ C16_ProbePredicts /\ C16_CanSound]_vars
A_C17 == [][C17_AdminWriters /\ C17_AdminExact /\ C17_FrozenForever /\ C17_MigrateKeeps /\ C17_GrantsByAdmins]_vars

\* C16 on the design: the query path and the execute path (written separately, as in the code) agree
\* on every reachable state for every sender and message
C16_CanIffExec == \A by \in Callers, m \in ProbeMsgs : RefCan(by, m) <=> ENABLED DoRelay(by, <<m>>)

TypeOK ==
  /\ admins \subseteq Addr /\ mutable \in BOOLEAN
  /\ \A k \in Addr : /\ al[k].has \in BOOLEAN
                     /\ \A d \in Denom : al[k].c[d] \in 0..MaxC
                     /\ ~al[k].has => al[k] = NoAl
                     /\ perm[k].has \in BOOLEAN

\* ---------------------------------------------------------------- constants for the .cfg files
C(d, a) == [d |-> d, a |-> a]
M(k, to, coins, tag) == [k |-> k, to |-> to, coins |-> coins, tag |-> tag]
S1 == M("send", "a4", <<C("d1", 1)>>, "")
S2 == M("send", "a4", <<C("d1", 2)>>, "")
S3 == M("send", "a1", <<C("d1", 3)>>, "")
SD2 == M("send", "r1", <<C("d2", 1)>>, "")
S12 == M("send", "a1", <<C("d1", 1), C("d2", 1)>>, "")
S21 == M("send", "a1", <<C("d2", 2), C("d1", 1)>>, "")
S11 == M("send", "a4", <<C("d1", 1), C("d1", 1)>>, "")
S0 == M("send", "a4", <<>>, "")
SZ == M("send", "a4", <<C("d1", 0)>>, "")
BURN == M("burn", "none", <<C("d1", 1)>>, "")
DEL == M("delegate", "v1", <<C("d1", 1)>>, "")
UND == M("undelegate", "v1", <<C("d1", 1)>>, "")
RED == M("redelegate", "v1", <<C("d1", 1)>>, "v2")
WD == M("withdraw", "v1", <<>>, "")
SW == M("set_withdraw", "a4", <<>>, "")
FP == M("fund_pool", "none", <<C("d1", 1)>>, "")
WX == M("wasm_exec", "k1", <<C("d1", 1)>>, "p1")
IBC == M("ibc_transfer", "a4", <<C("d1", 1)>>, "ch1")
VOTE == M("vote", "none", <<>>, "1:yes")
SUA == M("self_update_admins", "proxy", <<>>, "a3")
SUA0 == M("self_update_admins", "proxy", <<>>, "")
SFZ == M("self_freeze", "proxy", <<>>, "")
SINC == M("self_increase", "a3", <<C("d1", 2)>>, "never")
SSP == M("self_set_perm", "a3", <<>>, "durw")
MC_Self == {SUA, SUA0, SFZ, SINC, SSP}

MC_Msgs == {S1, S2, SD2, S12, S11, S0, BURN, DEL, UND, RED, WD, SW, FP, WX, IBC, VOTE, SUA, SFZ}
MC_MsgsGen == MC_Msgs \cup {S3, S21, SZ} \cup MC_Self
Singles(U) == {<<m>> : m \in U}
Pairs(U) == {<<m, n>> : m \in U, n \in U}
Triples(U) == {<<m, n, o>> : m \in U, n \in U, o \in U}
MC_ListsQ == {<<>>} \cup Singles(MC_Msgs) \cup Pairs({S1, S12, DEL, WX}) \cup Triples({S1, WD})
             \cup {<<S1, SD2, BURN>>, <<S11, S1>>, <<S2, S1>>}
MC_ListsT == {<<>>} \cup Singles(MC_MsgsGen) \cup Pairs({S1, S2, SD2, S12, DEL, WX}) \cup Triples({S1, S12, WD})
MC_ListsGen == {<<>>} \cup Singles(MC_MsgsGen) \cup Pairs({S1, S2, SD2, S12, DEL, WX}) \cup Triples({S1, SD2, RED})
             \cup {<<S1, SD2, BURN>>, <<S11, S1>>, <<S21, S12>>, <<S3, S1>>, <<SZ, S1>>, <<DEL, UND, RED>>, <<WD, SW, FP>>, <<S1, VOTE>>, <<IBC, S1>>,
                <<S1, SUA>>, <<SFZ, SUA0>>, <<SINC, S1>>, <<SSP, DEL>>}
MC_ListsBfs == Singles({S1, S2, SD2, S12, S11, S21}) \cup Pairs({S1, S12, SD2}) \cup {<<S1, S1, S1>>, <<S1, DEL, SD2>>, <<S11, WD, S1>>}

MC_InitAdmins == {<<"a1", "a2">>}
MC_InitAdminsGen == {<<"a1", "a2">>, <<"a1">>, <<"a1", "a1", "a3">>}
MC_AdminArgs == {<<>>, <<"a1">>, <<"a2", "a2">>, <<"a1", "a2">>, <<"a3">>}
MC_AdminArgsQ == {<<"a1">>, <<"a2", "a2">>, <<"a1", "a2">>, <<>>}
MC_AdminArgsGen == {<<>>, <<"a1">>, <<"a2", "a2">>, <<"a1", "a2">>, <<"a3">>, <<"a2", "a3", "a4">>, <<"a1", "a3">>}
P(d, u, r, w) == [d |-> d, u |-> u, r |-> r, w |-> w]
MC_PermArgsQ == {P(FALSE, FALSE, FALSE, FALSE), P(TRUE, FALSE, FALSE, FALSE), P(FALSE, TRUE, TRUE, TRUE)}
MC_PermArgs == {P(FALSE, FALSE, FALSE, FALSE), P(TRUE, FALSE, FALSE, FALSE), P(FALSE, TRUE, FALSE, FALSE),
                P(FALSE, FALSE, TRUE, FALSE), P(FALSE, FALSE, FALSE, TRUE), P(TRUE, TRUE, TRUE, TRUE)}
MC_ExpsQ == {Never, [k |-> "h", v |-> 1]}
MC_Exps == {Never, [k |-> "h", v |-> 1], [k |-> "t", v |-> 2]}
MC_ExpsGen == {Never, [k |-> "h", v |-> 1], [k |-> "h", v |-> 3], [k |-> "t", v |-> 2], [k |-> "t", v |-> 0]}

\* ---------------------------------------------------------------- schedule output (Gen mode)
EmitSchedule ==
  (GenMode /\ Len(sched) = GenDepth) =>
     PrintT(<<"SCHED", ToJson([cfg |-> cfgv, steps |-> sched])>>)
\* sampled breadth-first generation: the BFS path of every SampleK-th distinct state of the model
EmitSampled ==
  (GenMode /\ ~GenFail /\ Len(sched) > 0 /\ TLCGet("distinct") % SampleK = 0) =>
     PrintT(<<"SCHED", ToJson([cfg |-> cfgv, steps |-> sched])>>)
=============================================================================
