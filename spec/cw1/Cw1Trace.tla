----------------------------- MODULE Cw1Trace -----------------------------
(***************************************************************************)
(* Trace validation for cw1-whitelist / cw1-subkeys: replays the events    *)
(* recorded from the real contracts (one per call, with the state          *)
(* projected through the public queries) and checks the property formulas  *)
(* of Cw1 on every step.  The replay itself constrains nothing; all        *)
(* constraints are the owned formulas, so TLC names the violated clause    *)
(* (DESIGN C-3).                                                           *)
(***************************************************************************)
EXTENDS Cw1, Json, IOUtils, SequencesExt

Rec == ndJsonDeserialize(IOEnv.TRACE)

VARIABLE l          \* number of events consumed
tv == <<vars, l>>

BigCap == 1000000000

ListedIn(lst, k) == \E i \in 1..Len(lst) : lst[i].s = k
\* reported allowance: coins and expiry from the point query Allowance{}, existence from AllAllowances{}
AlOf(o) == [k \in Addr |->
   [has |-> ListedIn(o.alist, k), c |-> [d \in Denom |-> o.al[k].c[d]], exp |-> o.al[k].exp]]
PermOf(o) == [k \in Addr |->
   [has |-> ListedIn(o.plist, k), d |-> o.perm[k].d, u |-> o.perm[k].u, r |-> o.perm[k].r, w |-> o.perm[k].w]]

TInit ==
  /\ l = 0
  /\ flavour = "none" /\ admins = {} /\ mutable = FALSE
  /\ al = [k \in Addr |-> NoAl] /\ perm = [k \in Addr |-> NoPerm]
  /\ now = [h |-> 0, t |-> 0] /\ out = <<>>
  /\ slack = [k \in Addr |-> ZeroC]
  /\ ev = [act |-> "init", ok |-> TRUE, anom |-> <<>>]

TNext ==
  /\ l < Len(Rec)
  /\ l' = l + 1
  /\ LET e == Rec[l + 1] IN
     /\ ev' = e
     /\ flavour' = IF e.act = "reset" THEN e.cfg.flavour ELSE flavour
     /\ admins' = SeqSet(e.obs.admins)
     /\ mutable' = e.obs.mutable
     /\ al' = AlOf(e.obs)
     /\ perm' = PermOf(e.obs)
     /\ now' = e.now
     /\ out' = e.out
     \* history, inferred from the call, the relayed messages and the observed allowances
     /\ slack' = IF e.act = "reset" THEN [k \in Addr |-> ZeroC]
                 ELSE SlackAfter(e, e.out, admins, al, AlOf(e.obs), BigCap)

TSpec == TInit /\ [][TNext]_tv

\* every projected amount was an exact multiple of the run's scale and fits the model (C-4);
\* every address and denomination the contract reported is one of the model's
NoAnomaly == ev.anom = <<>>

\* ---------------------------------------------------------------- owned action properties
T_C07_RelayOnlyAuthorised == [][C07_RelayOnlyAuthorised]_tv
T_C07_RelayExact == [][C07_RelayExact]_tv
T_C07_SelfExecuteRefused == [][C07_SelfExecuteRefused]_tv
T_C07_FailRelaysNothing == [][C07_FailRelaysNothing]_tv
T_C07_OnlyExecuteRelays == [][C07_OnlyExecuteRelays]_tv

T_C08_SpendExact == [][C08_SpendExact]_tv
T_C08_AllowanceWriters == [][C08_AllowanceWriters]_tv
T_C08_IncreaseBounded == [][C08_IncreaseBounded]_tv
T_C08_DecreaseSaturating == [][C08_DecreaseSaturating]_tv
T_C08_GrantExpiry == [][C08_GrantExpiry]_tv
T_C08_OthersUntouched == [][C08_OthersUntouched]_tv

T_C16_Predicts == [][C16_Predicts]_tv
T_C16_ProbePredicts == [][C16_ProbePredicts]_tv
T_C16_CanSound == [][C16_CanSound]_tv

T_C17_AdminWriters == [][C17_AdminWriters]_tv
T_C17_AdminExact == [][C17_AdminExact]_tv
T_C17_FrozenForever == [][C17_FrozenForever]_tv
T_UpgradeKeepsState == [][UpgradeKeepsState]_tv
T_C17_MigrateKeeps == [][C17_MigrateKeeps]_tv
T_C17_GrantsByAdmins == [][C17_GrantsByAdmins]_tv
T_C17_Init == [][C17_Init]_tv

TraceAlias == [l |-> l, act |-> ev.act]

\* ---------------------------------------------------------------- acceptance
Accepted ==
  \/ TLCGet("stats").diameter = Len(Rec) + 1
  \/ PrintT(<<"TRACE_NOT_CONSUMED", TLCGet("stats").diameter, Len(Rec)>>) /\ FALSE
=============================================================================
