------------------------------- MODULE Cw1 -------------------------------
(***************************************************************************)
(* cw1-whitelist and cw1-subkeys (contracts/cw1-...): abstract state as the *)
(* public queries report it, one reference action per entry point, and the *)
(* formulas of properties C07, C08, C16, C17.                              *)
(*                                                                         *)
(* Used by Cw1MC (reference machine: exhaustive model checking, schedule   *)
(* generation) and Cw1Trace (replay of executions recorded from the real   *)
(* contracts); both check the SAME formulas.  Every formula talks about    *)
(* the state variables and about `ev`, the record of the call that led to  *)
(* the current state (E == ev' is the call being taken).                   *)
(*                                                                         *)
(* Convention C-2: a failing call is always admissible and must leave the  *)
(* state unchanged; a successful call must satisfy the guard and effect    *)
(* clauses that a property mandates.  The one must-succeed clause is C16   *)
(* (CanExecute = true => Execute succeeds).                                *)
(*                                                                         *)
(* Messages are abstract records [k, to, coins, tag]:                      *)
(*   k     kind: "send" "burn" "delegate" "undelegate" "redelegate"        *)
(*         "withdraw" "set_withdraw" "fund_pool" "wasm_exec" "ibc_transfer"*)
(*         "vote" (anything the decoder does not recognise is "odd:...")   *)
(*         "self_update_admins" "self_freeze" "self_increase"              *)
(*         "self_set_perm": wasm executes addressed to the proxy ITSELF;   *)
(*         these are really dispatched by the chain (sender = the proxy)   *)
(*   to    recipient / validator / contract (model name, "none" if absent) *)
(*   coins sequence of [d, a] (denomination, amount in the run's scale)    *)
(*   tag   second validator / payload / channel / vote ("" if absent)      *)
(* The harness decodes the messages a proxy returned into the same records *)
(* independently of how it encoded the submitted ones, so "relayed exactly"*)
(* is an equality of sequences.                                            *)
(***************************************************************************)
EXTENDS Integers, Sequences, FiniteSets, TLC

CONSTANTS Addr,         \* model addresses (a1..a4: admins, subkeys, strangers - roles change over a run)
          Denom         \* native denominations

VARIABLES
  flavour,   \* "whitelist" | "subkeys"   (fixed at instantiation)
  admins,    \* set of addresses          AdminList{}.admins
  mutable,   \* BOOLEAN                   AdminList{}.mutable
  al,        \* [Addr -> [has, c, exp]]   Allowance{spender} (c: [Denom -> Nat]); has = listed by AllAllowances.
             \*                           The queries hide expired allowances: this is the REPORTED allowance
  perm,      \* [Addr -> [has,d,u,r,w]]   Permissions{spender}; has = listed by AllPermissions
  now,       \* [h, t]                    block height / time (offsets from the run's origin)
  out,       \* messages the proxy returned in the Response of the last call (decoded)
  slack,     \* [Addr -> [Denom -> Int]]  history: granted - relayed - reported remainder (difference form, DESIGN C-6)
  ev         \* the call that produced this state: [act, by, args, ok, ret, can]
             \*   ok  = the transaction was committed
             \*   ret = the proxy's own entry point returned Ok (for Execute: it decided to relay); ok => ret,
             \*         and ret /\ ~ok only when a relayed self-call failed and took the transaction with it
             \*   can = answer of CanExecute{sender,msg} asked immediately before (single-message lists)

sv_ == <<flavour, admins, mutable, al, perm, now, out, slack>>
vars == <<flavour, admins, mutable, al, perm, now, out, slack, ev>>

Never == [k |-> "never", v |-> 0]
Keep == [k |-> "keep", v |-> 0]
ZeroC == [d \in Denom |-> 0]
NoAl == [has |-> FALSE, c |-> ZeroC, exp |-> Never]
NoPerm == [has |-> FALSE, d |-> FALSE, u |-> FALSE, r |-> FALSE, w |-> FALSE]

\* cw-utils Expiration::is_expired
Expired(e, t) == IF e.k = "h" THEN t.h >= e.v ELSE IF e.k = "t" THEN t.t >= e.v ELSE FALSE

SeqSet(s) == {s[i] : i \in 1..Len(s)}
Max0(x) == IF x > 0 THEN x ELSE 0
Least(x, y) == IF x < y THEN x ELSE y

RECURSIVE SumOver(_, _)
SumOver(S, f) == IF S = {} THEN 0 ELSE LET x == CHOOSE y \in S : TRUE IN f[x] + SumOver(S \ {x}, f)

\* ------------------------------------------------------------------ messages
Sends(msgs) == {i \in 1..Len(msgs) : msgs[i].k = "send"}
HasSend(msgs) == Sends(msgs) # {}
\* total of denomination d over all coins of all bank sends of the list (repeated denominations add up)
SumD(msgs, d) ==
  LET P == UNION {{<<i, j>> : j \in {jj \in 1..Len(msgs[i].coins) : msgs[i].coins[jj].d = d}} : i \in Sends(msgs)} IN
  SumOver(P, [p \in P |-> msgs[p[1]].coins[p[2]].a])

\* re-entrant calls: the proxy is asked to call one of its own administrative entry points
SelfKinds == {"self_update_admins", "self_freeze", "self_increase", "self_set_perm", "self_execute"}
HasSelf(msgs) == \E i \in 1..Len(msgs) : msgs[i].k \in SelfKinds

\* staking / distribution messages matching the permission flags (cw1-subkeys)
PermCovers(p, m) ==
  /\ p.has
  /\ IF m.k = "delegate" THEN p.d
     ELSE IF m.k = "undelegate" THEN p.u
     ELSE IF m.k = "redelegate" THEN p.r
     ELSE IF m.k \in {"withdraw", "set_withdraw"} THEN p.w
     ELSE FALSE

(***************************************************************************)
(* C07's authorisation predicate on the reported state: the caller is an   *)
(* admin, or (subkeys) every message is covered by the caller's grants -   *)
(* bank sends cumulatively within the reported (hence unexpired) allowance,*)
(* staking/distribution by the flags; every other kind is not covered.     *)
(***************************************************************************)
Authorised(by, msgs) ==
  \/ by \in admins
  \/ /\ flavour = "subkeys"
     /\ by \in Addr
     /\ \A i \in 1..Len(msgs) : msgs[i].k = "send" \/ PermCovers(perm[by], msgs[i])
     /\ HasSend(msgs) => al[by].has /\ \A d \in Denom : SumD(msgs, d) <= al[by].c[d]
  \* (an account outside the tracked keys - the proxy's own address as caller - holds no grants: only the empty list)
  \/ flavour = "subkeys" /\ by \notin Addr /\ msgs = <<>>

GrantActs == {"increase_allowance", "decrease_allowance", "set_permissions"}
AllowanceActs == {"increase_allowance", "decrease_allowance"}
\* "canq" = CanExecute{sender,msg} followed by a dry run of Execute{[msg]} on the same state (rolled back)
RelayActs == {"execute", "canq"}

E == ev'
Step == E.act # "reset"
Ok == E.ok
IsOk(a) == E.act = a /\ E.ok
Rem(a, k, d) == a[k].c[d]

\* ------------------------------------------------------------------ C07
\* the proxy decides to relay only for an authorised caller ...
C07_RelayOnlyAuthorised == Step /\ E.act \in RelayActs /\ (Ok \/ E.ret) => Authorised(E.by, E.args.msgs)
\* ... exactly as submitted: same messages, same order, nothing added, altered or dropped
C07_RelayExact == Step /\ E.act \in RelayActs /\ Ok => out' = E.args.msgs
\* a batch that the proxy is asked to relay to ITSELF arrives there with the proxy as caller, which is neither an
\* admin nor a grant holder: the nested call fails, and with it the whole call (a "canq" dry run stops before
\* relayed messages are dispatched, so only real Execute calls are concerned)
C07_SelfExecuteRefused == Step /\ E.act = "execute" /\ (\E i \in 1..Len(E.args.msgs) : E.args.msgs[i].k = "self_execute") => ~Ok
\* a failing call relays nothing and changes nothing
C07_FailRelaysNothing == Step /\ ~Ok =>
  out' = <<>> /\ admins' = admins /\ mutable' = mutable /\ al' = al /\ perm' = perm
\* no other entry point emits messages
C07_OnlyExecuteRelays == Step /\ E.act \notin RelayActs => out' = <<>>

\* ------------------------------------------------------------------ C08
\* the queries never report an expired allowance
C08_ReportedUnexpired == \A k \in Addr : al[k].has => ~Expired(al[k].exp, now)

\* a subkey's successful Execute lowers its allowance by exactly the per-denomination total of all
\* coins of all bank sends it relayed; that total was covered by the reported (unexpired) allowance
C08_SpendExact == Step /\ IsOk("execute") /\ E.by \notin admins /\ E.by \in Addr =>
  LET k == E.by IN
  IF ~HasSend(out') THEN al'[k] = al[k]
  ELSE /\ al[k].has
       /\ \A d \in Denom : /\ al[k].c[d] >= SumD(out', d)
                           /\ al'[k].c[d] = al[k].c[d] - SumD(out', d)
       /\ al'[k].has /\ al'[k].exp = al[k].exp      \* spending deducts coins and nothing else: the deadline the admins set stays

\* history: what a subkey relayed never exceeds what admins granted it, per denomination
\* (slack = granted - relayed - reported remainder, inferred from the calls, see SlackAfter)
C08_SpentWithinGranted == \A k \in Addr : \A d \in Denom : slack[k][d] >= 0 /\ al[k].c[d] >= 0

\* an allowance changes only by an admin's increase/decrease naming it, by its holder's Execute,
\* or by the clock crossing its expiry (the queries then hide it)
C08_AllowanceWriters == Step => \A k \in Addr : al'[k] # al[k] =>
  /\ Ok
  /\ IF E.act \in AllowanceActs THEN E.args.spender = k /\ E.by \in admins
     ELSE IF E.act = "execute" THEN E.by = k
     ELSE IF E.act = "advance" THEN al[k].has /\ Expired(al[k].exp, now') /\ al'[k] = NoAl
     ELSE FALSE

\* an increase adds at most the granted coin, and only to its denomination
C08_IncreaseBounded == Step /\ IsOk("increase_allowance") /\ E.args.spender \in Addr =>
  LET k == E.args.spender IN
  /\ al'[k].has
  /\ \A d \in Denom : al'[k].c[d] <= al[k].c[d] + (IF d = E.args.denom THEN E.args.amt ELSE 0)

\* a decrease saturates at zero and touches only its denomination
C08_DecreaseSaturating == Step /\ IsOk("decrease_allowance") /\ E.args.spender \in Addr =>
  LET k == E.args.spender IN
  \A d \in Denom : al'[k].c[d] = IF d = E.args.denom THEN Max0(al[k].c[d] - E.args.amt) ELSE al[k].c[d]

\* the expiry of a grant is the one the admin gave (or the previous one when none is given)
C08_GrantExpiry == Step /\ Ok /\ E.act \in AllowanceActs /\ E.args.spender \in Addr =>
  LET k == E.args.spender IN
  al'[k].has => al'[k].exp = (IF E.args.exp.k = "keep" THEN al[k].exp ELSE E.args.exp)

\* one key's Execute never changes another key's allowance or anybody's permissions
C08_OthersUntouched == Step /\ E.act \in RelayActs =>
  /\ \A j \in Addr \ {E.by} : al'[j] = al[j]
  /\ perm' = perm
  /\ E.act = "canq" => al' = al

\* ------------------------------------------------------------------ C16
\* CanExecute asked immediately before a single-message Execute on the same state predicts it ...
\* (Execute "succeeds" = the proxy accepts and relays; what the relayed message then does is not the proxy's)
C16_Predicts == Step /\ E.act = "execute" =>
  IF Len(E.args.msgs) = 1 THEN E.can = E.ret ELSE TRUE
\* ... and so it does for (sender, message) pairs whose Execute is only tried and rolled back
C16_ProbePredicts == Step /\ E.act = "canq" => E.can = E.ret
\* a positive answer is only given to authorised (sender, message) pairs
C16_CanSound == Step /\ E.act \in RelayActs =>
  IF Len(E.args.msgs) = 1 /\ E.can THEN Authorised(E.by, E.args.msgs) ELSE TRUE

\* ------------------------------------------------------------------ C17
\* the admin list and the mutable flag change only by UpdateAdmins / Freeze of a current admin while mutable
C17_AdminWriters == Step /\ (admins' # admins \/ mutable' # mutable) =>
  /\ Ok /\ E.by \in admins /\ mutable
  /\ IF E.act = "update_admins" THEN admins' = SeqSet(E.args.admins) /\ mutable' = mutable
     ELSE IF E.act = "freeze" THEN admins' = admins /\ mutable' = FALSE
     ELSE FALSE
\* successful UpdateAdmins / Freeze have exactly that effect (also when nothing visibly changes)
C17_AdminExact == Step /\ Ok =>
  /\ E.act = "update_admins" => E.by \in admins /\ mutable /\ admins' = SeqSet(E.args.admins) /\ mutable' = mutable
  /\ E.act = "freeze" => E.by \in admins /\ mutable /\ admins' = admins /\ mutable' = FALSE
\* frozen (or instantiated immutable) is forever
C17_FrozenForever == Step /\ ~mutable => admins' = admins /\ mutable' = mutable
\* allowances and permissions are created or altered only by calls of current admins
\* installing the current code again (migrate) moves no authority: admins, the frozen flag and every grant stay
C17_MigrateKeeps == Step /\ E.act = "migrate" => admins' = admins /\ mutable' = mutable /\ al' = al /\ perm' = perm /\ out' = <<>>
C17_GrantsByAdmins == Step =>
  /\ Ok /\ E.act \in GrantActs => E.by \in admins
  /\ \A k \in Addr :
       /\ perm'[k] # perm[k] =>
            /\ IsOk("set_permissions") /\ E.by \in admins /\ E.args.spender = k
            /\ perm'[k] = [has |-> TRUE, d |-> E.args.d, u |-> E.args.u, r |-> E.args.r, w |-> E.args.w]
       /\ (al'[k] # al[k] /\ E.act \notin {"execute", "advance"}) =>
            Ok /\ E.act \in AllowanceActs /\ E.by \in admins /\ E.args.spender = k
       \* an Execute (whatever it relays, also to the proxy itself) can only consume the caller's own allowance
       /\ (al'[k] # al[k] /\ E.act = "execute") =>
            Ok /\ E.by = k /\ al'[k].has = al[k].has /\ al'[k].exp = al[k].exp /\ \A d \in Denom : al'[k].c[d] <= al[k].c[d]
\* an accepted instantiate installs exactly the requested admins and flag, and no grants
\* (a fixture run starts from storage recorded from the released code)
FromFixture == "fixture" \in DOMAIN E.cfg
\* upgrade of a deployed proxy: what the code reads from storage written by the release is what the release reported
UpgradeKeepsState == E.act = "reset" /\ Ok /\ FromFixture => E.obs = E.cfg.expect
C17_Init == E.act = "reset" /\ Ok /\ ~FromFixture =>
  \* ("legacy": an admin a deployment of an older release recorded, in a spelling today's validation refuses)
  /\ admins' = SeqSet(E.cfg.admins) \cup (IF "oldadmin" \in DOMAIN E.cfg /\ E.cfg.oldadmin THEN {"legacy"} ELSE {})
  /\ mutable' = E.cfg.mutable
  /\ \A k \in Addr : al'[k] = NoAl /\ perm'[k] = NoPerm

(***************************************************************************)
(* History variable of C08 (difference form).  For key k and denomination  *)
(* d:  slack = (granted by admins) - (relayed by k as a non-admin)         *)
(*             - (reported remaining allowance).                           *)
(* It is computed from the calls' arguments, the relayed messages and the  *)
(* observed allowances only.  In every correct behaviour it never          *)
(* decreases (decreases, expiry and restart-from-zero re-grants only add   *)
(* to it), so it may be capped for exhaustive checking: `cap` = 0 checks   *)
(* exactly the inductive step "no call lowers it".                         *)
(***************************************************************************)
Granted(e, adm, k, d) ==
  IF e.act = "increase_allowance" /\ e.ok /\ e.by \in adm /\ e.args.spender = k /\ e.args.denom = d THEN e.args.amt ELSE 0
Relayed(e, adm, k, d, o) ==
  IF e.act = "execute" /\ e.ok /\ e.by = k /\ e.by \notin adm THEN SumD(o, d) ELSE 0
SlackAfter(e, o, adm, alOld, alNew, cap) ==
  [k \in Addr |-> [d \in Denom |->
     Least(cap, slack[k][d] + Granted(e, adm, k, d) - Relayed(e, adm, k, d, o) - (Rem(alNew, k, d) - Rem(alOld, k, d)))]]

(***************************************************************************)
(* Reference machine: what the code does on success, entry point by entry  *)
(* point (guards as in the code).  Failing calls do not change the state.  *)
(* NativeBalance arithmetic: a coin can be subtracted iff its denomination *)
(* is present with at least that amount; coins are subtracted one by one.  *)
(***************************************************************************)
RECURSIVE SendCoins(_)
SendCoins(msgs) == IF msgs = <<>> THEN <<>>
                   ELSE (IF Head(msgs).k = "send" THEN Head(msgs).coins ELSE <<>>) \o SendCoins(Tail(msgs))
RECURSIVE SubCoins(_, _)
SubCoins(b, cs) ==
  IF cs = <<>> \/ ~b.ok THEN b
  ELSE LET x == Head(cs) IN
       IF x.d \in Denom /\ b.c[x.d] > 0 /\ b.c[x.d] >= x.a
       THEN SubCoins([ok |-> TRUE, c |-> [b.c EXCEPT ![x.d] = @ - x.a]], Tail(cs))
       ELSE [ok |-> FALSE, c |-> b.c]

\* the query path (cw1-subkeys can_execute / cw1-whitelist can_execute)
RefCan(by, m) ==
  \/ by \in admins
  \/ /\ flavour = "subkeys"
     /\ IF m.k = "send" THEN al[by].has /\ SubCoins([ok |-> TRUE, c |-> al[by].c], m.coins).ok
        ELSE PermCovers(perm[by], m)

Frame_Admin == UNCHANGED <<flavour, admins, mutable>>

\* the execute path: the proxy's own decision and effect ...
DoRelay(by, msgs) ==
  /\ IF by \in admins THEN al' = al
     ELSE /\ flavour = "subkeys"
          /\ \A i \in 1..Len(msgs) : msgs[i].k = "send" \/ PermCovers(perm[by], msgs[i])
          /\ LET r == SubCoins([ok |-> TRUE, c |-> al[by].c], SendCoins(msgs)) IN
             /\ HasSend(msgs) => al[by].has /\ r.ok
             /\ al' = [al EXCEPT ![by].c = r.c]
  /\ out' = msgs
  /\ Frame_Admin /\ UNCHANGED perm

\* ... and the transaction: a relayed self-call runs with the proxy as sender, which is not an admin
\* in any configuration used, so it fails and takes the whole call with it
DoExecute(by, msgs) == ~HasSelf(msgs) /\ DoRelay(by, msgs)

DoFreeze(by) ==
  /\ by \in admins /\ mutable
  /\ mutable' = FALSE
  /\ UNCHANGED <<flavour, admins, al, perm>> /\ out' = <<>>

DoUpdateAdmins(by, lst) ==
  /\ by \in admins /\ mutable
  /\ admins' = SeqSet(lst)
  /\ UNCHANGED <<flavour, mutable, al, perm>> /\ out' = <<>>

NewExp(old, arg) == IF arg.k = "keep" THEN old ELSE arg

\* stale: an expired allowance is still stored for k (invisible to every query; only IncreaseAllowance
\* without an expiry notices it).  maxC: u128 bound in model units.
DoIncrease(by, k, d, x, e, stale, maxC) ==
  /\ flavour = "subkeys" /\ by \in admins /\ by # k
  /\ IF e.k = "keep" THEN ~stale ELSE ~Expired(e, now)
  /\ al[k].c[d] + x <= maxC
  /\ al' = [al EXCEPT ![k] = [has |-> TRUE, c |-> [al[k].c EXCEPT ![d] = @ + x], exp |-> NewExp(al[k].exp, e)]]
  /\ Frame_Admin /\ UNCHANGED perm /\ out' = <<>>

DoDecrease(by, k, d, x, e) ==
  /\ flavour = "subkeys" /\ by \in admins /\ by # k
  /\ al[k].has /\ al[k].c[d] > 0
  /\ e.k # "keep" => ~Expired(e, now)
  /\ LET c2 == [al[k].c EXCEPT ![d] = Max0(@ - x)] IN
     al' = [al EXCEPT ![k] = IF c2 = ZeroC THEN NoAl ELSE [has |-> TRUE, c |-> c2, exp |-> NewExp(al[k].exp, e)]]
  /\ Frame_Admin /\ UNCHANGED perm /\ out' = <<>>

DoSetPerm(by, k, p) ==
  /\ flavour = "subkeys" /\ by \in admins /\ by # k
  /\ perm' = [perm EXCEPT ![k] = [has |-> TRUE, d |-> p.d, u |-> p.u, r |-> p.r, w |-> p.w]]
  /\ Frame_Admin /\ UNCHANGED al /\ out' = <<>>

\* the clock: stored state is untouched, the reported allowances lose the ones that expire
AlAt(a, t) == [k \in Addr |-> IF a[k].has /\ Expired(a[k].exp, t) THEN NoAl ELSE a[k]]
=============================================================================
