------------------------------- MODULE Cw20 -------------------------------
(***************************************************************************)
(* cw20-base (contracts/cw20-base): abstract state, one action per entry   *)
(* point, and the formulas of properties C01, C02, C13, C19.               *)
(*                                                                         *)
(* The module is used three ways (DESIGN.md section 3):                    *)
(*   Cw20MC    - reference machine, exhaustive model checking and          *)
(*               schedule generation with TLC;                             *)
(*   Cw20Trace - replay of executions recorded from the real contract;     *)
(* both check the SAME property formulas below.  Every formula talks about *)
(* the state variables and about `ev`, the record of the call that led to  *)
(* the current state (ev' in an action formula is the call being taken).   *)
(*                                                                         *)
(* Convention C-2: a failing call is always admissible and must leave the  *)
(* state unchanged; a successful call must satisfy the guard and effect    *)
(* clauses that a property mandates.  Every clause carries its owner.      *)
(***************************************************************************)
EXTENDS Integers, Sequences, FiniteSets, TLC

CONSTANTS Addr          \* model addresses (users a1..a3 and the receiving contract k1)

VARIABLES
  accts,     \* set of addresses listed by AllAccounts
  bal,       \* [Addr -> Nat]        Balance{}
  supply,    \* Nat                  TokenInfo.total_supply
  mint,      \* [addr, cap]          Minter{}; addr = "none" when there is no minter, cap = -1 no cap
  allow,     \* [Pairs -> [amt,exp]] Allowance{owner,spender} (point query; default when unset)
  ov,        \* set of [o,s,amt,exp] AllAllowances{owner} over all owners (owner listing)
  sv,        \* set of [o,s,amt,exp] AllSpenderAllowances{spender} over all spenders
  now,       \* [h, t]               block height / time (offsets from the run's origin)
  out,       \* sequence of messages emitted by the last call
  maxAmt,    \* largest representable amount in the run's scale (u128 bound), -1 = unreachable
  credit,    \* [Pairs -> Int]       history: granted - drawn (difference form, DESIGN C-6)
  migrated,  \* FALSE while a pre-0.14 token has not been migrated
  mk,        \* [project, description, marketing, logo, mime]  MarketingInfo{} / DownloadLogo{} ("none" = unset)
  ev         \* the call that produced this state: [act, by, args, ok]

sv_ == <<accts, bal, supply, mint, allow, ov, sv, now, out, maxAmt, credit, migrated, mk>>
vars == <<accts, bal, supply, mint, allow, ov, sv, now, out, maxAmt, credit, migrated, mk, ev>>

Pairs == Addr \X Addr
NoMint == [addr |-> "none", cap |-> -1]
Never == [k |-> "never", v |-> 0]
NoAllow == [amt |-> 0, exp |-> Never]

\* cw-utils Expiration::is_expired
Expired(e, t) == IF e.k = "h" THEN t.h >= e.v ELSE IF e.k = "t" THEN t.t >= e.v ELSE FALSE

RECURSIVE SumOver(_, _)
SumOver(S, f) == IF S = {} THEN 0 ELSE LET x == CHOOSE y \in S : TRUE IN f[x] + SumOver(S \ {x}, f)

Move(b, from, to, a) == [[b EXCEPT ![from] = @ - a] EXCEPT ![to] = @ + a]
Fits(x) == maxAmt = -1 \/ x <= maxAmt

Entry(p, e) == [o |-> p[1], s |-> p[2], amt |-> e.amt, exp |-> e.exp]
Listed(view, p) == \E e \in view : e.o = p[1] /\ e.s = p[2]

MoveActs == {"transfer", "send", "transfer_from", "send_from"}
DrawActs == {"transfer_from", "send_from", "burn_from"}
HolderActs == {"transfer", "send", "burn"}
GrantActs == {"increase_allowance", "decrease_allowance"}
ExecActs == MoveActs \cup {"burn", "burn_from", "mint", "update_minter"} \cup GrantActs

(***************************************************************************)
(* Property formulas.  E is the call being taken (ev').  State formulas    *)
(* are invariants; the others are action formulas, boxed by the users of   *)
(* this module.  Reset events (instantiate) are constrained only by the    *)
(* Init clauses.                                                           *)
(***************************************************************************)
E == ev'
IsOk(a) == E.act = a /\ E.ok
Ok == E.ok
Step == E.act # "reset"

\* who is debited / credited by a successful call and by how much
From(e) == IF e.act \in HolderActs THEN e.by ELSE e.args.owner

\* ------------------------------------------------------------------ C01
C01_SupplyIsSum ==
  /\ supply = SumOver(accts, bal)
  /\ \A a \in Addr \ accts : bal[a] = 0

C01_SupplyMoves == Step /\ supply' # supply =>
  /\ Ok
  /\ IF E.act = "mint" THEN supply' = supply + E.args.amt
     ELSE IF E.act \in {"burn", "burn_from"} THEN supply' = supply - E.args.amt
     ELSE FALSE

C01_MintBurnOneBalance == Step /\ Ok =>
  /\ E.act = "mint" => supply' = supply + E.args.amt /\ bal' = [bal EXCEPT ![E.args.to] = @ + E.args.amt]
  /\ E.act = "burn" => supply' = supply - E.args.amt /\ bal' = [bal EXCEPT ![E.by] = @ - E.args.amt]
  /\ E.act = "burn_from" => supply' = supply - E.args.amt /\ bal' = [bal EXCEPT ![E.args.owner] = @ - E.args.amt]

C01_MovesKeepSupply == Step /\ Ok /\ E.act \in MoveActs => supply' = supply

C01_OthersKeep == Step /\ (~Ok \/ E.act \notin (MoveActs \cup {"mint", "burn", "burn_from"})) =>
  supply' = supply /\ bal' = bal

\* an accepted instantiate: balances as requested, supply their sum
\* (a fixture run starts from storage recorded from the released code: see FixtureFaithful)
FromFixture == "fixture" \in DOMAIN E.cfg
\* upgrade of a deployed token: what the code reads from storage written by the release is what the release reported
UpgradeKeepsState == E.act = "reset" /\ Ok /\ FromFixture => E.obs = E.cfg.expect
C01_Init == E.act = "reset" /\ Ok /\ ~FromFixture =>
  /\ \A a \in Addr : bal'[a] = SumOver({i \in 1..Len(E.cfg.init) : E.cfg.init[i].a = a}, [i \in 1..Len(E.cfg.init) |-> E.cfg.init[i].amt])
  /\ supply' = SumOver(1..Len(E.cfg.init), [i \in 1..Len(E.cfg.init) |-> E.cfg.init[i].amt])

\* ------------------------------------------------------------------ C02
C02_DebitAuthorised == Step => \A x \in Addr : bal'[x] < bal[x] =>
  /\ Ok
  /\ IF E.act \in HolderActs THEN E.by = x
     ELSE IF E.act \in DrawActs THEN E.args.owner = x
     ELSE FALSE

\* a draw succeeds only on an unexpired allowance of at least the amount ...
C02_DrawGuard == Step /\ Ok /\ E.act \in DrawActs =>
  LET a == allow[<<E.args.owner, E.by>>] IN ~Expired(a.exp, now') /\ a.amt >= E.args.amt

\* ... lowers it by exactly that amount (expiry untouched) ...
C02_DrawExact == Step /\ Ok /\ E.act \in DrawActs =>
  LET p == <<E.args.owner, E.by>> IN
  allow' = [allow EXCEPT ![p] = [amt |-> allow[p].amt - E.args.amt, exp |-> allow[p].exp]]

\* ... and every successful call moves exactly the amount, from the right account to the right one
C02_MoveExact == Step /\ Ok =>
  /\ E.act \in MoveActs => bal[From(E)] >= E.args.amt /\ bal' = Move(bal, From(E), E.args.to, E.args.amt)
  /\ E.act \in {"burn", "burn_from"} => bal[From(E)] >= E.args.amt /\ bal' = [bal EXCEPT ![From(E)] = @ - E.args.amt]

\* an allowance changes only by its owner's increase/decrease or its spender's draw
C02_AllowanceWriters == Step => \A p \in Pairs : allow'[p] # allow[p] =>
  /\ Ok
  /\ IF E.act \in GrantActs THEN p = <<E.by, E.args.spender>>
     ELSE IF E.act \in DrawActs THEN p = <<E.args.owner, E.by>>
     ELSE FALSE

NewExp(old, arg) == IF arg.k = "keep" THEN old ELSE arg
C02_IncreaseExact == Step /\ IsOk("increase_allowance") =>
  LET p == <<E.by, E.args.spender>> IN
  /\ allow'[p].amt = allow[p].amt + E.args.amt
  /\ allow'[p].exp = NewExp(allow[p].exp, E.args.exp)
\* decrease saturates at zero; once nothing is left the grant (and its expiry) is gone
C02_DecreaseSaturating == Step /\ IsOk("decrease_allowance") =>
  LET p == <<E.by, E.args.spender>> IN
  IF allow[p].amt > E.args.amt
  THEN allow'[p].amt = allow[p].amt - E.args.amt /\ allow'[p].exp = NewExp(allow[p].exp, E.args.exp)
  ELSE allow'[p].amt = 0

\* history: a spender never moves more than the owner cumulatively granted
\* (credit = granted - revoked - drawn, computed from the calls' arguments only, never from the
\* observed allowance; revocation saturates at zero)
C02_WithinGrants == \A p \in Pairs : allow[p].amt <= credit[p] /\ credit[p] >= 0

\* Send/SendFrom notify the receiving contract exactly once, truthfully; nothing else emits
C02_ReceiveNotified == Step =>
  IF Ok /\ E.act \in {"send", "send_from"}
  THEN out' = <<[k |-> "receive", to |-> E.args.to, sender |-> E.by, amt |-> E.args.amt, payload |-> E.args.payload]>>
  ELSE out' = <<>>

C02_FailRollsBack == Step /\ ~Ok => bal' = bal /\ allow' = allow

\* ------------------------------------------------------------------ C13
\* the cap bounds the tokens in existence: the reported supply and what the accounts really hold
C13_Cap == (mint.addr # "none" /\ mint.cap # -1) => supply <= mint.cap /\ SumOver(Addr, bal) <= mint.cap

C13_MintByMinter == Step /\ supply' > supply => IsOk("mint") /\ mint.addr = E.by /\ mint.addr # "none"

C13_MinterWriters == Step /\ mint' # mint =>
  /\ IsOk("update_minter") /\ mint.addr = E.by /\ mint.addr # "none"
  /\ mint' = IF E.args.new = "none" THEN NoMint ELSE [addr |-> E.args.new, cap |-> mint.cap]
C13_HandOverExact == Step /\ IsOk("update_minter") =>
  /\ mint.addr = E.by /\ mint.addr # "none"
  /\ mint' = IF E.args.new = "none" THEN NoMint ELSE [addr |-> E.args.new, cap |-> mint.cap]

C13_RenounceForever == Step /\ mint.addr = "none" => mint'.addr = "none"

\* an accepted instantiate honours the requested minter and cap
C13_Init == E.act = "reset" /\ Ok /\ ~FromFixture =>
  mint' = IF E.cfg.minter = "none" THEN NoMint ELSE [addr |-> E.cfg.minter, cap |-> E.cfg.cap]

\* ------------------------------------------------------------------ C19
PointOf(p) == allow[p]
C19_ViewsAgree == migrated =>
  /\ \A e \in ov : allow[<<e.o, e.s>>] = [amt |-> e.amt, exp |-> e.exp] /\ e \in sv
  /\ \A e \in sv : e \in ov
  /\ \A p \in Pairs : ~Listed(ov, p) => allow[p] = NoAllow
\* migrate rebuilds the spender listing and changes nothing else
C19_MigrateKeeps == Step /\ E.act = "migrate" =>
  /\ bal' = bal /\ supply' = supply /\ mint' = mint /\ allow' = allow /\ ov' = ov
  /\ Ok => migrated' = TRUE
C19_OnlyMigrateMigrates == Step /\ migrated' # migrated => IsOk("migrate")

\* ------------------------------------------------------------------ beyond the listed properties
\* Marketing / logo entry points (not part of C01 C02 C13 C19; validated by the conformance checks).
NoMk == [project |-> "none", description |-> "none", marketing |-> "none", logo |-> "none", mime |-> "none"]
MkActs == {"update_marketing", "upload_logo"}
Upd(old, arg) == IF arg = "keep" THEN old ELSE IF arg = "clear" THEN "none" ELSE arg
GoodLogos == {"url", "png", "maxpng", "svg"}          \* within the 5 KB cap, PNG header / XML preamble present
LogoOf(kind) == IF kind = "url" THEN "url" ELSE "embedded"
MimeOf(kind) == IF kind = "url" THEN "none" ELSE IF kind = "svg" THEN "image/svg+xml" ELSE "image/png"
X20_MarketingWriters == Step /\ mk' # mk => Ok /\ E.act \in MkActs /\ E.by = mk.marketing /\ mk.marketing # "none"
X20_UpdateMarketingExact == Step /\ IsOk("update_marketing") =>
  /\ E.by = mk.marketing /\ mk.marketing # "none"
  /\ mk' = [project |-> Upd(mk.project, E.args.project), description |-> Upd(mk.description, E.args.description),
            marketing |-> Upd(mk.marketing, E.args.marketing), logo |-> mk.logo, mime |-> mk.mime]
X20_UploadLogoExact == Step /\ IsOk("upload_logo") =>
  /\ E.by = mk.marketing /\ mk.marketing # "none" /\ E.args.kind \in GoodLogos
  /\ mk' = [mk EXCEPT !.logo = LogoOf(E.args.kind), !.mime = MimeOf(E.args.kind)]
X20_TokenUntouched == Step /\ E.act \in MkActs => bal' = bal /\ supply' = supply /\ allow' = allow /\ mint' = mint /\ ov' = ov /\ sv' = sv
X20_Init == E.act = "reset" /\ Ok /\ ~FromFixture =>
  mk' = IF E.cfg.mkt.on
        THEN [project |-> "proj0", description |-> "none", marketing |-> E.cfg.mkt.addr,
              logo |-> IF E.cfg.mkt.logo = "none" THEN "none" ELSE LogoOf(E.cfg.mkt.logo),
              mime |-> IF E.cfg.mkt.logo \in {"none", "url"} THEN "none" ELSE MimeOf(E.cfg.mkt.logo)]
        ELSE NoMk

(***************************************************************************)
(* Reference machine: what the code does on success, entry point by entry  *)
(* point (guards as in the code).  Failing calls do not change the state.  *)
(***************************************************************************)
SetEntry(view, p, e) == {x \in view : ~(x.o = p[1] /\ x.s = p[2])} \cup {Entry(p, e)}
DelEntry(view, p) == {x \in view : ~(x.o = p[1] /\ x.s = p[2])}

Frame_Allow == UNCHANGED <<allow, ov, sv, credit>>
Frame_Tok == UNCHANGED <<accts, bal, supply>>

DoTransfer(s, r, a) ==
  /\ bal[s] >= a
  /\ bal' = Move(bal, s, r, a) /\ accts' = accts \cup {s, r}
  /\ UNCHANGED <<supply, mint>> /\ Frame_Allow /\ out' = <<>>
DoSend(s, c, a, pl) ==
  /\ bal[s] >= a
  /\ bal' = Move(bal, s, c, a) /\ accts' = accts \cup {s, c}
  /\ UNCHANGED <<supply, mint>> /\ Frame_Allow
  /\ out' = <<[k |-> "receive", to |-> c, sender |-> s, amt |-> a, payload |-> pl]>>
DoBurn(s, a) ==
  /\ bal[s] >= a
  /\ bal' = [bal EXCEPT ![s] = @ - a] /\ accts' = accts \cup {s} /\ supply' = supply - a
  /\ UNCHANGED mint /\ Frame_Allow /\ out' = <<>>
DoMint(s, r, a) ==
  /\ mint.addr = s /\ s # "none"
  /\ Fits(supply + a)
  /\ mint.cap # -1 => supply + a <= mint.cap
  /\ bal' = [bal EXCEPT ![r] = @ + a] /\ accts' = accts \cup {r} /\ supply' = supply + a
  /\ UNCHANGED mint /\ Frame_Allow /\ out' = <<>>
\* common part of the *_from calls (deduct_allowance on both maps)
Draw(sp, o, a) ==
  LET p == <<o, sp>> IN
  /\ Listed(ov, p) /\ Listed(sv, p)
  /\ ~Expired(allow[p].exp, now) /\ allow[p].amt >= a
  /\ LET e == [amt |-> allow[p].amt - a, exp |-> allow[p].exp] IN
     allow' = [allow EXCEPT ![p] = e] /\ ov' = SetEntry(ov, p, e) /\ sv' = SetEntry(sv, p, e)
  /\ credit' = [credit EXCEPT ![p] = @ - a]
DoTransferFrom(sp, o, r, a) ==
  /\ Draw(sp, o, a) /\ bal[o] >= a
  /\ bal' = Move(bal, o, r, a) /\ accts' = accts \cup {o, r}
  /\ UNCHANGED <<supply, mint>> /\ out' = <<>>
DoBurnFrom(sp, o, a) ==
  /\ Draw(sp, o, a) /\ bal[o] >= a
  /\ bal' = [bal EXCEPT ![o] = @ - a] /\ accts' = accts \cup {o} /\ supply' = supply - a
  /\ UNCHANGED mint /\ out' = <<>>
DoSendFrom(sp, o, c, a, pl) ==
  /\ Draw(sp, o, a) /\ bal[o] >= a
  /\ bal' = Move(bal, o, c, a) /\ accts' = accts \cup {o, c}
  /\ UNCHANGED <<supply, mint>>
  /\ out' = <<[k |-> "receive", to |-> c, sender |-> sp, amt |-> a, payload |-> pl]>>
DoIncrease(o, sp, a, x) ==
  LET p == <<o, sp>> IN
  /\ o # sp
  /\ x.k # "keep" => ~Expired(x, now)
  /\ Fits(allow[p].amt + a)
  /\ LET e == [amt |-> allow[p].amt + a, exp |-> NewExp(allow[p].exp, x)] IN
     allow' = [allow EXCEPT ![p] = e] /\ ov' = SetEntry(ov, p, e) /\ sv' = SetEntry(sv, p, e)
  /\ credit' = [credit EXCEPT ![p] = @ + a]
  /\ Frame_Tok /\ UNCHANGED mint /\ out' = <<>>
DoDecrease(o, sp, a, x) ==
  LET p == <<o, sp>> IN
  /\ o # sp /\ Listed(ov, p)
  /\ IF a < allow[p].amt
     THEN /\ x.k # "keep" => ~Expired(x, now)
          /\ LET e == [amt |-> allow[p].amt - a, exp |-> NewExp(allow[p].exp, x)] IN
             allow' = [allow EXCEPT ![p] = e] /\ ov' = SetEntry(ov, p, e) /\ sv' = SetEntry(sv, p, e)
     ELSE allow' = [allow EXCEPT ![p] = NoAllow] /\ ov' = DelEntry(ov, p) /\ sv' = DelEntry(sv, p)
  /\ credit' = [credit EXCEPT ![p] = IF @ > a THEN @ - a ELSE 0]
  /\ Frame_Tok /\ UNCHANGED mint /\ out' = <<>>
DoUpdateMinter(s, new) ==
  /\ mint.addr = s /\ s # "none"
  /\ mint' = IF new = "none" THEN NoMint ELSE [addr |-> new, cap |-> mint.cap]
  /\ Frame_Tok /\ Frame_Allow /\ out' = <<>>
DoUpdateMarketing(s, pr, de, ma) ==
  /\ mk.marketing = s /\ s # "none"
  /\ mk' = [project |-> Upd(mk.project, pr), description |-> Upd(mk.description, de), marketing |-> Upd(mk.marketing, ma),
            logo |-> mk.logo, mime |-> mk.mime]
  /\ Frame_Tok /\ Frame_Allow /\ UNCHANGED mint /\ out' = <<>>
DoUploadLogo(s, kind) ==
  /\ mk.marketing = s /\ s # "none" /\ kind \in GoodLogos
  /\ mk' = [mk EXCEPT !.logo = LogoOf(kind), !.mime = MimeOf(kind)]
  /\ Frame_Tok /\ Frame_Allow /\ UNCHANGED mint /\ out' = <<>>
DoMigrate ==
  /\ ~migrated /\ migrated' = TRUE /\ sv' = ov
  /\ Frame_Tok /\ UNCHANGED <<mint, allow, ov, credit, out>>
=============================================================================
