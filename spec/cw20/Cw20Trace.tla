----------------------------- MODULE Cw20Trace -----------------------------
(***************************************************************************)
(* Trace validation for cw20-base: replays the events recorded from the    *)
(* real contract (one per call, with the state projected through the       *)
(* public queries) and checks the property formulas of Cw20 on every step. *)
(* The replay itself constrains nothing; all constraints are the owned     *)
(* formulas, so TLC names the violated clause (DESIGN C-3).                *)
(***************************************************************************)
EXTENDS Cw20, Json, IOUtils, SequencesExt

Rec == ndJsonDeserialize(IOEnv.TRACE)

VARIABLE l          \* number of events consumed
tv == <<vars, l>>


AllowOf(o) == [p \in Pairs |->
   LET m == {e \in ToSet(o.allow) : e.o = p[1] /\ e.s = p[2]} IN
   IF m = {} THEN NoAllow ELSE LET e == CHOOSE x \in m : TRUE IN [amt |-> e.amt, exp |-> e.exp]]
View4(s) == {[o |-> x.o, s |-> x.s, amt |-> x.amt, exp |-> x.exp] : x \in ToSet(s)}

\* history, inferred from the calls' arguments (never from the observed allowance, except at reset)
CreditNext(e, allowNew) ==
  IF e.act = "reset" THEN [p \in Pairs |-> allowNew[p].amt]
  ELSE IF ~e.ok THEN credit
  ELSE IF e.act = "increase_allowance" THEN [credit EXCEPT ![<<e.by, e.args.spender>>] = @ + e.args.amt]
  ELSE IF e.act = "decrease_allowance" THEN [credit EXCEPT ![<<e.by, e.args.spender>>] = IF @ > e.args.amt THEN @ - e.args.amt ELSE 0]
  ELSE IF e.act \in DrawActs THEN [credit EXCEPT ![<<e.args.owner, e.by>>] = @ - e.args.amt]
  ELSE credit

TInit ==
  /\ l = 0
  /\ accts = {} /\ bal = [a \in Addr |-> 0] /\ supply = 0 /\ mint = NoMint
  /\ allow = [p \in Pairs |-> NoAllow] /\ ov = {} /\ sv = {}
  /\ now = [h |-> 0, t |-> 0] /\ out = <<>> /\ maxAmt = -1
  /\ credit = [p \in Pairs |-> 0] /\ migrated = TRUE /\ mk = NoMk
  /\ ev = [act |-> "init", ok |-> TRUE, anom |-> <<>>]

TNext ==
  /\ l < Len(Rec)
  /\ l' = l + 1
  /\ LET e == Rec[l + 1] IN
     /\ ev' = e
     /\ accts' = ToSet(e.obs.accounts)
     /\ bal' = [a \in Addr |-> e.obs.bal[a]]
     /\ supply' = e.obs.supply
     /\ mint' = e.obs.minter
     /\ allow' = AllowOf(e.obs)
     /\ ov' = View4(e.obs.byOwner)
     /\ sv' = View4(e.obs.bySpender)
     /\ migrated' = e.obs.migrated
     /\ mk' = e.obs.mk
     /\ now' = e.now
     /\ out' = e.out
     /\ maxAmt' = IF e.act = "reset" THEN e.cfg.maxAmt ELSE maxAmt
     /\ credit' = CreditNext(e, AllowOf(e.obs))

TSpec == TInit /\ [][TNext]_tv

\* every projected amount was an exact multiple of the run's scale and fits the model (C-4)
NoAnomaly == ev.anom = <<>>

\* ---------------------------------------------------------------- owned action properties
T_C01_SupplyMoves == [][C01_SupplyMoves]_tv
T_C01_MintBurnOneBalance == [][C01_MintBurnOneBalance]_tv
T_C01_MovesKeepSupply == [][C01_MovesKeepSupply]_tv
T_C01_OthersKeep == [][C01_OthersKeep]_tv
T_C01_Init == [][C01_Init]_tv
T_UpgradeKeepsState == [][UpgradeKeepsState]_tv

T_C02_DebitAuthorised == [][C02_DebitAuthorised]_tv
T_C02_DrawGuard == [][C02_DrawGuard]_tv
T_C02_DrawExact == [][C02_DrawExact]_tv
T_C02_MoveExact == [][C02_MoveExact]_tv
T_C02_AllowanceWriters == [][C02_AllowanceWriters]_tv
T_C02_IncreaseExact == [][C02_IncreaseExact]_tv
T_C02_DecreaseSaturating == [][C02_DecreaseSaturating]_tv
T_C02_ReceiveNotified == [][C02_ReceiveNotified]_tv
T_C02_FailRollsBack == [][C02_FailRollsBack]_tv

T_C13_MintByMinter == [][C13_MintByMinter]_tv
T_C13_MinterWriters == [][C13_MinterWriters]_tv
T_C13_HandOverExact == [][C13_HandOverExact]_tv
T_C13_RenounceForever == [][C13_RenounceForever]_tv
T_C13_Init == [][C13_Init]_tv

T_X20_MarketingWriters == [][X20_MarketingWriters]_tv
T_X20_UpdateMarketingExact == [][X20_UpdateMarketingExact]_tv
T_X20_UploadLogoExact == [][X20_UploadLogoExact]_tv
T_X20_TokenUntouched == [][X20_TokenUntouched]_tv
T_X20_Init == [][X20_Init]_tv
T_C19_MigrateKeeps == [][C19_MigrateKeeps]_tv
T_C19_OnlyMigrateMigrates == [][C19_OnlyMigrateMigrates]_tv

TraceAlias == [l |-> l, act |-> ev.act]

\* ---------------------------------------------------------------- acceptance
Accepted ==
  \/ TLCGet("stats").diameter = Len(Rec) + 1
  \/ PrintT(<<"TRACE_NOT_CONSUMED", TLCGet("stats").diameter, Len(Rec)>>) /\ FALSE
=============================================================================
