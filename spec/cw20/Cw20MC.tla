------------------------------ MODULE Cw20MC ------------------------------
(***************************************************************************)
(* Reference machine of Cw20 for TLC: exhaustive model checking of the     *)
(* property formulas (MC mode) and generation of schedules that are then   *)
(* executed on the real contract (Gen mode: failing calls are part of the  *)
(* alphabet, the schedule is a history variable hidden by the VIEW and     *)
(* printed once per behaviour).                                            *)
(***************************************************************************)
EXTENDS Cw20, Json, SequencesExt

CONSTANTS
  Amts,        \* amounts used as arguments
  MaxAmtC,     \* u128 bound in model units (small, so that overflow edges are reached)
  AllowPairs,  \* ordered pairs on which allowances are exercised
  Exps,        \* expirations used as arguments
  MaxH,        \* clock horizon
  Caps,        \* caps tried at instantiation (-1 = none)
  Minters,     \* minters tried at instantiation ("none" = no minter)
  InitBals,    \* set of initial balance functions [Addr -> Nat]
  LegacyPairs, \* pairs that may carry a grant in a legacy start state
  Legacy,      \* set of BOOLEAN: start states with a pre-0.14 allowance table
  Marketing,   \* set of BOOLEAN: instantiate with marketing info (marketing address a1)
  GenMode,     \* TRUE: keep the schedule, include failing calls
  GenDepth,    \* schedule length at which a behaviour is printed (Gen mode)
  GenFail,     \* Gen mode: failing calls are part of the alphabet (random walks); FALSE for the sampled BFS
  SampleK      \* sampled BFS: every SampleK-th distinct state's path is printed

VARIABLES sched, cfgv

mcvars == <<vars, sched, cfgv>>
View == <<sv_, IF GenMode /\ GenFail THEN Len(sched) ELSE 0>>
\* transition cover: one BFS path per distinct (state, call that led to it), so that calls which lead to an
\* already known state (no-op calls, self-transfers, alternative ways into a state) get a schedule too
ViewEv == <<View, ev>>

Users == Addr \ {"k1"}
Payloads == {"p1"}
ExpArgs == Exps \cup {[k |-> "keep", v |-> 0]}

LegacyGrants == { <<>> } \cup { <<[o |-> p[1], s |-> p[2], amt |-> 2, exp |-> Never]>> : p \in LegacyPairs }

Init ==
  \E b \in InitBals, m \in Minters, c \in Caps, lg \in Legacy, mkOn \in Marketing :
  \E g \in (IF lg THEN LegacyGrants ELSE {<<>>}) :
    LET tot == SumOver(Addr, b) IN
    /\ (m = "none" => c = -1)
    /\ (c # -1 => tot <= c)            \* instantiate rejects a cap below the initial supply
    /\ tot <= MaxAmtC
    /\ bal = b /\ accts = {a \in Addr : b[a] > 0} /\ supply = tot
    /\ mint = IF m = "none" THEN NoMint ELSE [addr |-> m, cap |-> c]
    /\ allow = [p \in Pairs |-> IF \E i \in 1..Len(g) : <<g[i].o, g[i].s>> = p THEN [amt |-> 2, exp |-> Never] ELSE NoAllow]
    /\ ov = { [o |-> g[i].o, s |-> g[i].s, amt |-> 2, exp |-> Never] : i \in 1..Len(g) }
    /\ sv = IF lg THEN {} ELSE ov
    /\ credit = [p \in Pairs |-> allow[p].amt]
    /\ migrated = ~lg
    /\ now = [h |-> 0, t |-> 0] /\ out = <<>> /\ maxAmt = MaxAmtC
    /\ mk = IF mkOn THEN [NoMk EXCEPT !.project = "proj0", !.marketing = "a1"] ELSE NoMk
    /\ cfgv = [scale |-> 0, init |-> SetToSeq({[a |-> x, amt |-> b[x]] : x \in {y \in Addr : b[y] > 0}}), minter |-> m, cap |-> c,
               legacy |-> lg, legacyGrants |-> g,
               marketing |-> [addr |-> IF mkOn THEN "a1" ELSE "none", logo |-> "none"], mkt |-> [on |-> mkOn, addr |-> "a1", logo |-> "none"]]
    /\ ev = [act |-> "reset", by |-> "env", ok |-> TRUE]
    /\ sched = <<>>
    /\ \A i \in 1..20 : TLCSet(100 + i, 0)

\* one call: taken as a real step when the reference guard holds; in Gen mode a call whose guard
\* is false is a failing call (state unchanged) that still goes into the schedule
Call(e, action) ==
  \/ /\ action
     /\ ev' = [e EXCEPT !.ok = TRUE]
     /\ UNCHANGED <<now, maxAmt, cfgv>>
     /\ migrated' = migrated
     /\ IF e.act \in MkActs THEN TRUE ELSE mk' = mk
     /\ sched' = IF GenMode THEN Append(sched, e) ELSE sched
  \/ /\ GenMode /\ GenFail /\ ~ENABLED action
     /\ ev' = [e EXCEPT !.ok = FALSE]
     /\ UNCHANGED <<sv_, cfgv>>
     /\ sched' = Append(sched, e)

Ev(a, by, args) == [act |-> a, by |-> by, args |-> args, ok |-> TRUE]

Ready == migrated /\ ~(GenMode /\ Len(sched) >= GenDepth)

ATransfer == Ready /\ \E s \in Addr, r \in Addr, a \in Amts :
       Call(Ev("transfer", s, [to |-> r, amt |-> a]), DoTransfer(s, r, a))
ASend == Ready /\ \E s \in Addr, a \in Amts, pl \in Payloads :
       Call(Ev("send", s, [to |-> "k1", amt |-> a, payload |-> pl]), DoSend(s, "k1", a, pl))
ABurn == Ready /\ \E s \in Addr, a \in Amts :
       Call(Ev("burn", s, [amt |-> a]), DoBurn(s, a))
AMint == Ready /\ \E s \in Users, r \in Addr, a \in Amts :
       Call(Ev("mint", s, [to |-> r, amt |-> a]), DoMint(s, r, a))
ATransferFrom == Ready /\ \E p \in AllowPairs, r \in Addr, a \in Amts :
       Call(Ev("transfer_from", p[2], [owner |-> p[1], to |-> r, amt |-> a]), DoTransferFrom(p[2], p[1], r, a))
ABurnFrom == Ready /\ \E p \in AllowPairs, a \in Amts :
       Call(Ev("burn_from", p[2], [owner |-> p[1], amt |-> a]), DoBurnFrom(p[2], p[1], a))
ASendFrom == Ready /\ \E p \in AllowPairs, a \in Amts, pl \in Payloads :
       Call(Ev("send_from", p[2], [owner |-> p[1], to |-> "k1", amt |-> a, payload |-> pl]), DoSendFrom(p[2], p[1], "k1", a, pl))
AIncrease == Ready /\ \E p \in AllowPairs, a \in Amts, x \in ExpArgs :
       Call(Ev("increase_allowance", p[1], [spender |-> p[2], amt |-> a, exp |-> x]), DoIncrease(p[1], p[2], a, x))
ADecrease == Ready /\ \E p \in AllowPairs, a \in Amts, x \in ExpArgs :
       Call(Ev("decrease_allowance", p[1], [spender |-> p[2], amt |-> a, exp |-> x]), DoDecrease(p[1], p[2], a, x))
AUpdateMarketing == Ready /\ \E s \in Users, pr \in {"keep", "clear", "projA"}, ma \in {"keep", "clear", "a2"} :
       Call(Ev("update_marketing", s, [project |-> pr, description |-> "keep", marketing |-> ma]), DoUpdateMarketing(s, pr, "keep", ma))
AUploadLogo == Ready /\ \E s \in Users, k \in {"url", "png", "svg", "badpng", "bigpng"} :
       Call(Ev("upload_logo", s, [kind |-> k]), DoUploadLogo(s, k))
AUpdateMinter == Ready /\ \E s \in Users, n \in Users \cup {"none"} :
       Call(Ev("update_minter", s, [new |-> n]), DoUpdateMinter(s, n))

Advance ==
  /\ Ready /\ now.h < MaxH
  /\ now' = [h |-> now.h + 1, t |-> now.t + 1]
  /\ ev' = Ev("advance", "env", [dh |-> 1, dt |-> 1])
  /\ UNCHANGED <<accts, bal, supply, mint, allow, ov, sv, maxAmt, credit, migrated, mk, cfgv>>
  /\ out' = <<>>
  /\ sched' = IF GenMode THEN Append(sched, ev') ELSE sched

Migrate ==
  /\ ~migrated /\ DoMigrate /\ UNCHANGED <<now, maxAmt, mk, cfgv>>
  /\ ev' = Ev("migrate", "creator", [x |-> 0])
  /\ sched' = sched        \* the harness always migrates a legacy token first

\* a legacy token is migrated before anything else happens (code and storage are swapped atomically)
Next == \/ Migrate \/ Advance
        \/ ATransfer \/ ASend \/ ABurn \/ AMint \/ ATransferFrom \/ ABurnFrom \/ ASendFrom
        \/ AIncrease \/ ADecrease \/ AUpdateMinter \/ AUpdateMarketing \/ AUploadLogo

Spec == Init /\ [][Next]_mcvars

\* ---------------------------------------------------------------- properties (boxed)
A_C01 == [][C01_SupplyMoves /\ C01_MintBurnOneBalance /\ C01_MovesKeepSupply /\ C01_OthersKeep]_vars
A_C02 == [][C02_DebitAuthorised /\ C02_DrawGuard /\ C02_DrawExact /\ C02_MoveExact /\ C02_AllowanceWriters
            /\ C02_IncreaseExact /\ C02_DecreaseSaturating /\ C02_ReceiveNotified /\ C02_FailRollsBack]_vars
A_C13 == [][C13_MintByMinter /\ C13_MinterWriters /\ C13_HandOverExact /\ C13_RenounceForever]_vars
A_C19 == [][C19_MigrateKeeps /\ C19_OnlyMigrateMigrates]_vars
A_X20 == [][X20_MarketingWriters /\ X20_UpdateMarketingExact /\ X20_UploadLogoExact /\ X20_TokenUntouched]_vars

TypeOK ==
  /\ accts \subseteq Addr
  /\ \A a \in Addr : bal[a] \in 0..MaxAmtC
  /\ supply \in 0..MaxAmtC
  /\ \A p \in Pairs : allow[p].amt \in 0..MaxAmtC

\* ---------------------------------------------------------------- constants for the .cfg files
MC_Caps == {-1, 2, 3}
MC_CapsGen == {-1, 3, 4}
MC_Exps == {Never, [k |-> "h", v |-> 1], [k |-> "t", v |-> 2]}
MC_AllowPairs2 == {<<"a1", "a2">>, <<"a2", "a1">>}
MC_AllowPairs2o == {<<"a1", "a2">>, <<"a1", "k1">>}
MC_AllowPairs3 == {<<"a1", "a2">>, <<"a2", "a1">>, <<"a1", "k1">>}
MC_AllowPairsAll == {p \in Pairs : p[1] # p[2]}
MC_InitBals == {b \in [Addr -> 0..2] : SumOver(Addr, b) <= 3 /\ b["k1"] = 0}
MC_InitBalsQ == {[a \in Addr |-> IF a = "a1" THEN 2 ELSE 0], [a \in Addr |-> IF a = "k1" THEN 0 ELSE 1], [a \in Addr |-> 0]}
MC_InitBalsOne == {[a \in Addr |-> IF a = "a1" THEN 2 ELSE 0]}
MC_AllowPairs1 == {<<"a1", "a2">>}
MC_Exps2 == {Never, [k |-> "h", v |-> 1]}
MC_CapsQ == {-1, 3}
MC_InitBalsGen == {b \in [Addr -> 0..3] : SumOver(Addr, b) <= 4}

\* ---------------------------------------------------------------- schedule output (Gen mode)
EmitSchedule ==
  (GenMode /\ Len(sched) = GenDepth) =>
     PrintT(<<"SCHED", ToJson([cfg |-> cfgv, steps |-> sched])>>)
\* corner states whose BFS path is always emitted (once per worker), whatever the sampling rate
Goals == <<
  \E p \in Pairs : Listed(ov, p) /\ allow[p].amt = 0,                         \* an allowance drawn to exactly zero
  \E p \in Pairs : allow[p].amt > 0 /\ Expired(allow[p].exp, now),              \* an expired allowance with something left
  mint.addr # "none" /\ mint.cap # -1 /\ supply = mint.cap,                      \* supply at the cap
  supply = maxAmt,                                                               \* supply at the u128 bound
  mint.addr = "none" /\ cfgv.minter # "none",                                    \* minter renounced
  migrated /\ cfgv.legacy /\ ov # {},                                            \* migrated legacy table with entries
  \E p \in Pairs : credit[p] > 0 /\ ~Listed(ov, p),                             \* a revoked allowance
  supply = 0 /\ accts # {}                                                       \* everything burned
>>
NewGoal == \E i \in 1..Len(Goals) : Goals[i] /\ TLCGet(100 + i) = 0 /\ TLCSet(100 + i, 1)
EmitSampled ==
  (GenMode /\ ~GenFail /\ Len(sched) > 0) =>
     (IF NewGoal \/ TLCGet("distinct") % SampleK = 0
      THEN PrintT(<<"SCHED", ToJson([cfg |-> cfgv, steps |-> sched])>>) ELSE TRUE)
=============================================================================
