------------------------------- MODULE Cw4MC -------------------------------
(***************************************************************************)
(* Reference machine of cw4-group / cw4-stake for TLC (model checking and  *)
(* schedule generation).                                                   *)
(***************************************************************************)
EXTENDS Cw4, Json, SequencesExt

CONSTANTS
  Flavour, InitMembers, InitAdmins, Weights, MaxH, MaxOps,
  Tpw, MinBondC, PeriodC, MaxWC, Amts, MaxClaims,
  GenMode, GenDepth, GenFail, SampleK

VARIABLES ops, sched, cfgv
mcvars == <<vars, ops, sched, cfgv>>
View == <<svars, init0, hist, ops, IF GenMode /\ GenFail THEN Len(sched) ELSE 0>>
\* transition cover: one BFS path per distinct (state, call that led to it), so that calls which lead to an
\* already known state (no-op calls, self-transfers, alternative ways into a state) get a schedule too
ViewEv == <<View, ev>>

Admins == {"ad", "ad2"}
HookAddrs == {"h1", "h2"}
Listing(m) == {[a |-> a, w |-> m[a]] : a \in {x \in Addr : m[x] >= 0}}

Init ==
  \E m \in InitMembers, ad \in InitAdmins :
    /\ cfg = [flavour |-> Flavour, tpw |-> Tpw, minBond |-> MinBondC, period |-> PeriodC, maxW |-> MaxWC]
    /\ members = (IF Flavour = "group" THEN m ELSE NoMembers)
    /\ total = SumW(members) /\ listed = Listing(members) /\ nlisted = Cardinality(Listing(members))
    /\ admin = ad /\ hooks = <<>>
    /\ stake = [a \in Addr |-> 0] /\ claims = [a \in Addr |-> <<>>] /\ held = 0 /\ ubal = [a \in Addr |-> 0]
    /\ now = [h |-> 0, t |-> 0] /\ out = <<>>
    /\ init0 = [m |-> members, t |-> total] /\ hist = <<>>
    /\ ops = 0 /\ sched = <<>>
    /\ \A i \in 1..20 : TLCSet(100 + i, 0)
    /\ ev = [act |-> "reset", by |-> "env", ok |-> TRUE]
    /\ cfgv = IF Flavour = "group"
              THEN [flavour |-> "group", admin |-> ad, wscale |-> 0,
                    members |-> SetToSeq({[a |-> x, w |-> m[x]] : x \in {y \in Addr : m[y] >= 0}})]
              ELSE [flavour |-> "stake", admin |-> ad, members |-> <<>>,
                    stake |-> [denom |-> "native", scale |-> 0, tpw |-> Tpw, tpwLog |-> 0 - 1, minBond |-> MinBondC, period |-> PeriodC]]

Ev(a, by, args) == [act |-> a, by |-> by, args |-> args, ok |-> TRUE]
Ready == ~(GenMode /\ Len(sched) >= GenDepth) /\ ops < MaxOps

HookOut(diffs) == [i \in 1..Len(hooks) |-> [k |-> "hook", to |-> hooks[i], diffs |-> diffs, amt |-> 0]]
StakeFrame == UNCHANGED <<stake, claims, held, ubal>>
Frame0 == UNCHANGED <<cfg, now, init0, hist>>

\* diffs exactly as the code reports them: one entry per add (old -> new), then one per effective removal
RECURSIVE AddDiffs(_, _)
AddDiffs(m, add) == IF add = <<>> THEN <<>>
                    ELSE <<[a |-> Head(add).a, old |-> m[Head(add).a], new |-> Head(add).w]>> \o AddDiffs([m EXCEPT ![Head(add).a] = Head(add).w], Tail(add))
RECURSIVE RemDiffs(_, _)
RemDiffs(m, rem) == IF rem = <<>> THEN <<>>
                    ELSE (IF m[Head(rem)] >= 0 THEN <<[a |-> Head(rem), old |-> m[Head(rem)], new |-> 0 - 1]>> ELSE <<>>) \o RemDiffs([m EXCEPT ![Head(rem)] = -1], Tail(rem))
Distinct(add) == \A i, j \in 1..Len(add) : i # j => add[i].a # add[j].a

DoUpdateMembers(by, add, rem) ==
  /\ Flavour = "group" /\ by = admin /\ admin # "none" /\ Distinct(add)
  /\ LET m1 == ApplyAdd(members, add)  m2 == ApplyRemove(m1, rem) IN
     /\ members' = m2 /\ total' = SumW(m2) /\ listed' = Listing(m2) /\ nlisted' = Cardinality(Listing(m2))
     /\ out' = HookOut(AddDiffs(members, add) \o RemDiffs(m1, rem))
  /\ UNCHANGED <<admin, hooks>> /\ StakeFrame /\ Frame0
DoUpdateAdmin(by, new) ==
  /\ by = admin /\ admin # "none"
  /\ admin' = new /\ out' = <<>>
  /\ UNCHANGED <<members, total, listed, nlisted, hooks>> /\ StakeFrame /\ Frame0
DoAddHook(by, h) ==
  /\ by = admin /\ admin # "none" /\ h \notin SeqSet(hooks)
  /\ hooks' = Append(hooks, h) /\ out' = <<>>
  /\ UNCHANGED <<members, total, listed, nlisted, admin>> /\ StakeFrame /\ Frame0
DoRemoveHook(by, h) ==
  /\ by = admin /\ admin # "none" /\ h \in SeqSet(hooks)
  /\ hooks' = Without(hooks, h) /\ out' = <<>>
  /\ UNCHANGED <<members, total, listed, nlisted, admin>> /\ StakeFrame /\ Frame0

WeightOf(s) == IF s >= MinBond THEN s \div Tpw ELSE -1
Remember(by, s) ==      \* update_membership
  LET w == WeightOf(s) IN
  /\ MaxWC # -1 => w <= MaxWC
  /\ members' = [members EXCEPT ![by] = w]
  /\ total' = SumW(members') /\ listed' = Listing(members') /\ nlisted' = Cardinality(Listing(members'))
  /\ out' = IF w = members[by] THEN <<>> ELSE HookOut(<<[a |-> by, old |-> members[by], new |-> w]>>)
DoBond(by, a) ==
  /\ Flavour = "stake"
  /\ stake' = [stake EXCEPT ![by] = @ + a] /\ held' = held + a /\ ubal' = [ubal EXCEPT ![by] = @ - a]
  /\ Remember(by, stake[by] + a)
  /\ UNCHANGED <<claims, admin, hooks>> /\ Frame0
DoUnbond(by, a) ==
  /\ Flavour = "stake" /\ stake[by] >= a /\ Len(claims[by]) < MaxClaims
  /\ stake' = [stake EXCEPT ![by] = @ - a]
  /\ claims' = [claims EXCEPT ![by] = Append(@, [amt |-> a, rel |-> PeriodEnd(now)])]
  /\ Remember(by, stake[by] - a)
  /\ UNCHANGED <<held, ubal, admin, hooks>> /\ Frame0
DoClaim(by) ==
  LET paid == SumSeq(SelectSeq(claims[by], LAMBDA c : Expired(c.rel, now))) IN
  /\ Flavour = "stake" /\ paid > 0
  /\ claims' = [claims EXCEPT ![by] = SelectSeq(@, LAMBDA c : ~Expired(c.rel, now))]
  /\ held' = held - paid /\ ubal' = [ubal EXCEPT ![by] = @ + paid]
  /\ out' = <<[k |-> "pay", to |-> by, diffs |-> <<>>, amt |-> paid]>>
  /\ UNCHANGED <<members, total, listed, nlisted, admin, hooks, stake>> /\ Frame0

Call(e, action) ==
  \/ /\ action
     /\ ev' = [e EXCEPT !.ok = TRUE]
     /\ ops' = ops + 1 /\ UNCHANGED cfgv
     /\ sched' = IF GenMode THEN Append(sched, e) ELSE sched
  \/ /\ GenMode /\ GenFail /\ ~ENABLED action
     /\ ev' = [e EXCEPT !.ok = FALSE]
     /\ UNCHANGED <<svars, init0, hist, cfgv>> /\ ops' = ops + 1
     /\ sched' = Append(sched, e)

Callers == Admins \cup {"a1"}
Adds == {<<>>} \cup {<<[a |-> x, w |-> w]>> : x \in Addr, w \in Weights}
             \cup {<<[a |-> "a1", w |-> w], [a |-> "a2", w |-> v]>> : w \in Weights, v \in Weights}
Rems == {<<>>} \cup {<<x>> : x \in Addr}
AUpdateMembers == Ready /\ \E by \in Callers, add \in Adds, rem \in Rems :
  Call(Ev("update_members", by, [add |-> add, remove |-> rem]), DoUpdateMembers(by, add, rem))
AUpdateAdmin == Ready /\ \E by \in Callers, new \in Admins \cup {"none"} :
  Call(Ev("update_admin", by, [new |-> new]), DoUpdateAdmin(by, new))
AAddHook == Ready /\ \E by \in Callers, h \in HookAddrs : Call(Ev("add_hook", by, [hook |-> h]), DoAddHook(by, h))
ARemoveHook == Ready /\ \E by \in Callers, h \in HookAddrs : Call(Ev("remove_hook", by, [hook |-> h]), DoRemoveHook(by, h))
\* (schedules also try to bond another denomination and one whose name differs from the staked one only in case)
BondTokens == IF GenMode THEN {"good", "otherdenom", "lookalike"} ELSE {"good"}
ABond == Ready /\ \E by \in Addr, a \in Amts, tk \in BondTokens :
  Call(Ev("bond", by, [amt |-> a, token |-> tk]), tk = "good" /\ DoBond(by, a))
AUnbond == Ready /\ \E by \in Addr, a \in Amts : Call(Ev("unbond", by, [amt |-> a]), DoUnbond(by, a))
AClaim == Ready /\ \E by \in Addr : Call(Ev("claim", by, [x |-> 0]), DoClaim(by))
Advance ==
  /\ ~(GenMode /\ Len(sched) >= GenDepth) /\ now.h < MaxH
  /\ now' = [h |-> now.h + 1, t |-> now.t + 10]
  /\ hist' = Append(hist, [m |-> members, t |-> total])
  /\ ev' = Ev("advance", "env", [dh |-> 1, dt |-> 10])
  /\ out' = <<>>
  /\ UNCHANGED <<cfg, members, total, listed, nlisted, admin, hooks, init0, ops, cfgv>> /\ StakeFrame
  /\ sched' = IF GenMode THEN Append(sched, ev') ELSE sched

Next == AUpdateMembers \/ AUpdateAdmin \/ AAddHook \/ ARemoveHook \/ ABond \/ AUnbond \/ AClaim \/ Advance
Spec == Init /\ [][Next]_mcvars

A_C09 == [][C09_AtHeight /\ C09_RawEqualsSmart /\ C09_QueriesChangeNothing]_vars
A_C14 == [][C14_AdminWriters /\ C14_UpdateAdminExact /\ C14_HookWriters /\ C14_HookCallsExact /\ C14_MembersWriters
            /\ C14_FrozenForever /\ C14_UpdateMembersExact /\ C14_HooksTruthful]_vars
A_C10 == [][C10_BondExact /\ C10_UnbondExact /\ C10_ClaimExact /\ C10_OthersKeep]_vars
\* the snapshots the machine keeps are exactly the history (design-level statement of C09)
C09_HistoryShape == Len(hist) = now.h

M3(x, y, z) == [a \in Addr |-> IF a = "a1" THEN x ELSE IF a = "a2" THEN y ELSE z]
MembersQ == {M3(1, 0, -1), M3(2, 1, 1)}
MembersAll == [Addr -> {-1, 0, 1, 2}]
WeightsQ == {0, 2}
WeightsT == {0, 1, 2}
PeriodH1 == [k |-> "h", v |-> 1]
PeriodT15 == [k |-> "t", v |-> 20]
NoMaxW == 0 - 1

EmitSchedule ==
  (GenMode /\ GenFail /\ Len(sched) = GenDepth) => PrintT(<<"SCHED", ToJson([cfg |-> cfgv, steps |-> sched])>>)
\* corner states whose BFS path is always emitted (once per worker), whatever the sampling rate
Goals == <<
  \E a \in Addr : members[a] = 0,                                                 \* a member with weight zero
  Len(hooks) = 2 /\ \E a \in Addr : init0.m[a] >= 0 /\ members[a] = -1,           \* removal with two hooks registered
  admin = "none" /\ Len(hooks) > 0,                                               \* frozen with hooks
  \E a \in Addr : Len(claims[a]) >= 2,                                            \* two claims of one user
  \E a \in Addr : stake[a] = 0 /\ Len(claims[a]) > 0,                             \* unbonded everything
  \E a \in Addr : cfg.maxW # -1 /\ members[a] = cfg.maxW,                         \* weight at the u64 bound
  \E a \in Addr : stake[a] > 0 /\ members[a] = -1,                                \* staked below the minimum bond
  now.h >= 2 /\ \E a \in Addr : hist[1].m[a] # hist[2].m[a]                        \* membership changed between two block starts
>>
NewGoal == \E i \in 1..Len(Goals) : Goals[i] /\ TLCGet(100 + i) = 0 /\ TLCSet(100 + i, 1)
EmitSampled ==
  (GenMode /\ ~GenFail /\ Len(sched) > 0) =>
     (IF NewGoal \/ TLCGet("distinct") % SampleK = 0
      THEN PrintT(<<"SCHED", ToJson([cfg |-> cfgv, steps |-> sched])>>) ELSE TRUE)
=============================================================================
