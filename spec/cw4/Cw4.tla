-------------------------------- MODULE Cw4 --------------------------------
(***************************************************************************)
(* cw4-group and cw4-stake (the flavour is part of the configuration):     *)
(* membership with block-start snapshots, admin and hooks, stakes and      *)
(* claims; formulas of properties C09, C10, C14.                           *)
(***************************************************************************)
EXTENDS Integers, Sequences, FiniteSets, TLC

CONSTANTS Addr

VARIABLES
  cfg,       \* [flavour, tpw, minBond, period, maxW]
  members,   \* [Addr -> Int]  Member{addr}: weight, -1 = not a member
  total,     \* TotalWeight{}
  listed,    \* set of [a, w]  ListMembers (all pages)
  nlisted,   \* number of entries the walk over ListMembers returned (duplicates would show here)
  admin,     \* "none" once cleared
  hooks,     \* sequence of registered hook addresses
  stake,     \* [Addr -> Nat]  Staked{address}
  claims,    \* [Addr -> Seq([amt, rel])]  Claims{address}
  held,      \* staking-token balance of the contract
  ubal,      \* [Addr -> Int]  users' staking-token balance, relative to initial funding
  now, out,
  init0,     \* membership and total at the start of block 0 (after instantiation in an earlier block)
  hist,      \* hist[h] = [m, t]: membership and total at the start of block h, for h in 1..now.h
  ev

svars == <<cfg, members, total, listed, nlisted, admin, hooks, stake, claims, held, ubal, now, out>>
vars == <<cfg, members, total, listed, nlisted, admin, hooks, stake, claims, held, ubal, now, out, init0, hist, ev>>

RECURSIVE SumF(_, _)
SumF(S, f) == IF S = {} THEN 0 ELSE LET x == CHOOSE y \in S : TRUE IN f[x] + SumF(S \ {x}, f)
SumW(m) == SumF(Addr, [a \in Addr |-> IF m[a] > 0 THEN m[a] ELSE 0])
RECURSIVE SumSeq(_)
SumSeq(q) == IF q = <<>> THEN 0 ELSE Head(q).amt + SumSeq(Tail(q))
Expired(e, t) == IF e.k = "h" THEN t.h >= e.v ELSE IF e.k = "t" THEN t.t >= e.v ELSE FALSE
NoMembers == [a \in Addr |-> -1]
SeqSet(q) == {q[i] : i \in 1..Len(q)}

E == ev'
Ok == E.ok
IsOk(a) == E.act = a /\ E.ok
Step == E.act # "reset"
Group == cfg.flavour = "group"

\* ------------------------------------------------------------------ C09
C09_TotalIsSum ==
  /\ total = SumW(members)
  /\ listed = {[a |-> a, w |-> members[a]] : a \in {x \in Addr : members[x] >= 0}}
  /\ nlisted = Cardinality(listed)                       \* every member listed exactly once
\* the value that held at the start of block h
StartOf(h) ==
  IF h > now.h THEN [m |-> members, t |-> total]
  ELSE IF h < -4 THEN [m |-> NoMembers, t |-> 0]          \* before (and at) the block of instantiation
  ELSE IF h <= 0 THEN init0
  ELSE hist[h]
C09_AtHeight == Step /\ E.act = "query" =>
  /\ E.args.kind = "member" => E.args.ans = StartOf(E.args.h).m[E.args.addr]
  /\ E.args.kind = "total" => E.args.ans = StartOf(E.args.h).t
C09_RawEqualsSmart == Step /\ E.act = "query" =>
  /\ E.args.kind = "raw_member" => E.args.ans = members[E.args.addr]
  /\ E.args.kind = "raw_total" => E.args.ans = total
C09_QueriesChangeNothing == Step /\ E.act \in {"query", "advance"} =>
  members' = members /\ total' = total /\ listed' = listed /\ admin' = admin /\ hooks' = hooks /\ stake' = stake

\* ------------------------------------------------------------------ C14
C14_AdminWriters == Step /\ admin' # admin => IsOk("update_admin") /\ E.by = admin /\ admin' = E.args.new
C14_UpdateAdminExact == Step /\ IsOk("update_admin") => E.by = admin /\ admin # "none" /\ admin' = E.args.new
Without(q, x) == SelectSeq(q, LAMBDA y : y # x)
C14_HookWriters == Step /\ hooks' # hooks =>
  /\ Ok /\ E.by = admin /\ admin # "none"
  /\ \/ E.act = "add_hook" /\ E.args.hook \notin SeqSet(hooks) /\ hooks' = Append(hooks, E.args.hook)
     \/ E.act = "remove_hook" /\ E.args.hook \in SeqSet(hooks) /\ hooks' = Without(hooks, E.args.hook)
C14_HookCallsExact == Step /\ Ok /\ E.act \in {"add_hook", "remove_hook"} => E.by = admin /\ hooks' # hooks
C14_MembersWriters == Step /\ members' # members =>
  /\ Ok
  /\ IF Group THEN E.act = "update_members" /\ E.by = admin /\ admin # "none"
     ELSE E.act \in {"bond", "unbond"} /\ \A a \in Addr \ {E.by} : members'[a] = members[a]
C14_FrozenForever == Step /\ admin = "none" =>
  /\ admin' = "none" /\ hooks' = hooks
  /\ Group => members' = members /\ total' = total
\* add is applied first, then remove (an address in both ends up removed)
RECURSIVE ApplyAdd(_, _)
ApplyAdd(m, add) == IF add = <<>> THEN m ELSE ApplyAdd([m EXCEPT ![Head(add).a] = Head(add).w], Tail(add))
RECURSIVE ApplyRemove(_, _)
ApplyRemove(m, rem) == IF rem = <<>> THEN m ELSE ApplyRemove([m EXCEPT ![Head(rem)] = -1], Tail(rem))
C14_UpdateMembersExact == Step /\ IsOk("update_members") =>
  /\ E.by = admin /\ admin # "none"
  /\ members' = ApplyRemove(ApplyAdd(members, E.args.add), E.args.remove)
\* hook notifications: replaying the reported diffs from the old membership gives the new one, every
\* reported previous weight is the true one at that point, only addresses the call names occur
RECURSIVE ReplayOK(_, _, _)
ReplayOK(ds, m, target) ==
  IF ds = <<>> THEN m = target
  ELSE LET d == Head(ds) IN d.a \in Addr /\ d.old = m[d.a] /\ ReplayOK(Tail(ds), [m EXCEPT ![d.a] = d.new], target)
HookMsgs(o) == SelectSeq(o, LAMBDA x : x.k = "hook")
Named(e) == IF e.act = "update_members" THEN {e.args.add[i].a : i \in 1..Len(e.args.add)} \cup SeqSet(e.args.remove) ELSE {e.by}
\* "exactly the addresses the call touched": every member the call sets (also to the weight it already has) and
\* every member it removes has an entry
Touched(e) == IF e.act = "update_members"
              THEN {e.args.add[i].a : i \in 1..Len(e.args.add)} \cup {r \in SeqSet(e.args.remove) : r \in Addr /\ members[r] >= 0}
              ELSE {}
Covers(ds, e) == \A a \in Touched(e) \cap Addr : \E j \in 1..Len(ds) : ds[j].a = a
WellFormed(hs, e) ==
  /\ Len(hs) = Len(hooks)
  /\ \A i \in 1..Len(hs) : hs[i].to = hooks[i] /\ hs[i].diffs = hs[1].diffs
  /\ Len(hs) > 0 =>
       /\ ReplayOK(hs[1].diffs, members, members')
       /\ \A i \in 1..Len(hs[1].diffs) : hs[1].diffs[i].a \in Named(e)
       /\ Covers(hs[1].diffs, e)
C14_HooksTruthful == Step =>
  LET hs == HookMsgs(out') IN
  IF ~Ok THEN hs = <<>>
  ELSE IF members' = members THEN hs = <<>> \/ WellFormed(hs, E)
  ELSE WellFormed(hs, E)

\* ------------------------------------------------------------------ C10 (cw4-stake)
StakeRun == cfg.flavour = "stake"
MinBond == IF cfg.minBond > 1 THEN cfg.minBond ELSE 1
C10_Backed == StakeRun => held = SumF(Addr, stake) + SumF(Addr, [a \in Addr |-> SumSeq(claims[a])])
C10_Membership == StakeRun => \A a \in Addr : (members[a] >= 0) <=> (stake[a] >= MinBond)
C10_Weight == StakeRun => \A a \in Addr : members[a] >= 0 =>
  /\ members[a] = stake[a] \div cfg.tpw
  /\ cfg.maxW # -1 => members[a] <= cfg.maxW
C10_BondExact == Step /\ IsOk("bond") =>
  /\ E.args.token = "good"                                   \* only the configured token, alone
  /\ stake' = [stake EXCEPT ![E.by] = @ + E.args.amt]
  /\ held' = held + E.args.amt /\ ubal' = [ubal EXCEPT ![E.by] = @ - E.args.amt]
  /\ claims' = claims
PeriodEnd(t) == IF cfg.period.k = "h" THEN [k |-> "h", v |-> t.h + cfg.period.v] ELSE [k |-> "t", v |-> t.t + cfg.period.v]
C10_UnbondExact == Step /\ IsOk("unbond") =>
  /\ stake[E.by] >= E.args.amt
  /\ stake' = [stake EXCEPT ![E.by] = @ - E.args.amt]
  /\ claims' = [claims EXCEPT ![E.by] = Append(@, [amt |-> E.args.amt, rel |-> PeriodEnd(now')])]
  /\ held' = held /\ ubal' = ubal
C10_ClaimExact == Step /\ IsOk("claim") =>
  LET mine == claims[E.by]
      paid == SumSeq(SelectSeq(mine, LAMBDA c : Expired(c.rel, now'))) IN
  /\ paid > 0
  /\ claims' = [claims EXCEPT ![E.by] = SelectSeq(mine, LAMBDA c : ~Expired(c.rel, now'))]
  /\ held' = held - paid /\ ubal' = [ubal EXCEPT ![E.by] = @ + paid]
  /\ stake' = stake
  /\ SelectSeq(out', LAMBDA x : x.k # "hook") = <<[k |-> "pay", to |-> E.by, diffs |-> <<>>, amt |-> paid]>>
C10_OthersKeep == Step /\ ~(Ok /\ E.act \in {"bond", "unbond", "claim"}) =>
  stake' = stake /\ claims' = claims /\ held' = held /\ ubal' = ubal
=============================================================================
