------------------------------ MODULE Cw4Trace ------------------------------
EXTENDS Cw4, Json, IOUtils, SequencesExt

Rec == ndJsonDeserialize(IOEnv.TRACE)
VARIABLE l
tv == <<vars, l>>

CfgOf(c) == IF c.flavour = "stake"
            THEN [flavour |-> "stake", tpw |-> c.stake.tpwUnits, minBond |-> c.stake.minBond, period |-> c.stake.period, maxW |-> c.stake.maxW]
            ELSE [flavour |-> "group", tpw |-> 1, minBond |-> 0, period |-> [k |-> "h", v |-> 0], maxW |-> c.maxW]
TInit ==
  /\ l = 0
  /\ cfg = [flavour |-> "group", tpw |-> 1, minBond |-> 0, period |-> [k |-> "h", v |-> 0], maxW |-> -1]
  /\ members = NoMembers /\ total = 0 /\ listed = {} /\ nlisted = 0 /\ admin = "none" /\ hooks = <<>>
  /\ stake = [a \in Addr |-> 0] /\ claims = [a \in Addr |-> <<>>] /\ held = 0 /\ ubal = [a \in Addr |-> 0]
  /\ now = [h |-> 0, t |-> 0] /\ out = <<>>
  /\ init0 = [m |-> NoMembers, t |-> 0] /\ hist = <<>>
  /\ ev = [act |-> "init", ok |-> TRUE, anom |-> <<>>]
TNext ==
  /\ l < Len(Rec)
  /\ l' = l + 1
  /\ LET e == Rec[l + 1]
         reset == e.act = "reset"
         M == [a \in Addr |-> e.obs.members[a]]
     IN
     /\ ev' = e
     /\ cfg' = IF reset THEN CfgOf(e.cfg) ELSE cfg
     /\ members' = M /\ total' = e.obs.total
     /\ listed' = {[a |-> x.a, w |-> x.w] : x \in ToSet(e.obs.listed)}
     /\ nlisted' = e.obs.nlisted
     /\ admin' = e.obs.admin /\ hooks' = e.obs.hooks
     /\ stake' = [a \in Addr |-> e.obs.stake[a]]
     /\ claims' = [a \in Addr |-> e.obs.claims[a]]
     /\ held' = e.obs.held /\ ubal' = [a \in Addr |-> e.obs.ubal[a]]
     /\ now' = e.now /\ out' = e.out
     /\ init0' = IF reset THEN [m |-> M, t |-> e.obs.total] ELSE init0
     \* every block that starts finds the membership as the previous block left it
     /\ hist' = IF reset THEN <<>>
                ELSE IF e.act = "advance" /\ e.args.dh > 0
                     THEN [h \in 1..(now.h + e.args.dh) |-> IF h <= now.h THEN hist[h] ELSE [m |-> members, t |-> total]]
                ELSE hist
TSpec == TInit /\ [][TNext]_tv

NoAnomaly == ev.anom = <<>>
TraceAlias == [l |-> l, act |-> ev.act]

T_C09_AtHeight == [][C09_AtHeight]_tv
T_C09_RawEqualsSmart == [][C09_RawEqualsSmart]_tv
T_C09_QueriesChangeNothing == [][C09_QueriesChangeNothing]_tv
T_C14_AdminWriters == [][C14_AdminWriters]_tv
T_C14_UpdateAdminExact == [][C14_UpdateAdminExact]_tv
T_C14_HookWriters == [][C14_HookWriters]_tv
T_C14_HookCallsExact == [][C14_HookCallsExact]_tv
T_C14_MembersWriters == [][C14_MembersWriters]_tv
T_C14_FrozenForever == [][C14_FrozenForever]_tv
T_C14_UpdateMembersExact == [][C14_UpdateMembersExact]_tv
T_C14_HooksTruthful == [][C14_HooksTruthful]_tv
T_C10_BondExact == [][C10_BondExact]_tv
T_C10_UnbondExact == [][C10_UnbondExact]_tv
T_C10_ClaimExact == [][C10_ClaimExact]_tv
T_C10_OthersKeep == [][C10_OthersKeep]_tv

Accepted ==
  \/ TLCGet("stats").diameter = Len(Rec) + 1
  \/ PrintT(<<"TRACE_NOT_CONSUMED", TLCGet("stats").diameter, Len(Rec)>>) /\ FALSE
=============================================================================
