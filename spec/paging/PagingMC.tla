----------------------------- MODULE PagingMC -----------------------------
(***************************************************************************)
(* C20 at the design level: with this page rule, walking with the last     *)
(* returned key as cursor returns every item exactly once in order for     *)
(* every limit >= 1, resuming from any cursor yields exactly the items     *)
(* beyond it, no page exceeds min(limit, MAX), the default is DEFAULT.     *)
(* One initial state per (size, direction, limit, cursor); Next stutters.  *)
(***************************************************************************)
EXTENDS Paging, TLC

CONSTANTS MaxN, Limits

VARIABLES n, rev, limit, cursor
pvars == <<n, rev, limit, cursor>>
Init == n \in 0..MaxN /\ rev \in BOOLEAN /\ limit \in Limits /\ cursor \in 0..(2 * n + 1)
Next == UNCHANGED pvars
Spec == Init /\ [][Next]_pvars

WalkComplete == limit # 0 => Walk(Items(n, rev), NoCursor, limit, rev) = Items(n, rev)
ResumeExact == limit # 0 => Walk(Items(n, rev), cursor, limit, rev) = Beyond(Items(n, rev), cursor, rev)
PageBound == LET pg == Page(Items(n, rev), cursor, limit, rev) IN
  /\ Len(pg) <= MAX_LIMIT
  /\ limit # NoLimit => Len(pg) <= limit
  /\ limit = NoLimit => Len(pg) <= DEFAULT_LIMIT
  /\ Len(pg) = MinI(Len(Beyond(Items(n, rev), cursor, rev)), Eff(limit))
ZeroLimitEmpty == limit = 0 => Page(Items(n, rev), cursor, limit, rev) = <<>>
LimitsAll == {0 - 1, 0, 1, 2, 3, 9, 10, 11, 29, 30, 31, 100}
=============================================================================
