------------------------------ MODULE Paging ------------------------------
(***************************************************************************)
(* Every list query of the suite (property C20): keys in strictly          *)
(* increasing order (decreasing for ReverseProposals), an exclusive        *)
(* cursor, take(min(limit or DEFAULT_LIMIT, MAX_LIMIT)).                   *)
(* Keys are integers: the rank of the real key in key order, doubled, so   *)
(* that cursors that are not items (between / before / after) are the odd  *)
(* numbers.                                                                *)
(***************************************************************************)
EXTENDS Integers, Sequences

CONSTANTS DEFAULT_LIMIT, MAX_LIMIT

NoLimit == -1
NoCursor == 0
MinI(a, b) == IF a < b THEN a ELSE b
Eff(limit) == MinI(IF limit = NoLimit THEN DEFAULT_LIMIT ELSE limit, MAX_LIMIT)

\* the n items of a listing in its own order
Items(n, rev) == [i \in 1..n |-> IF rev THEN 2 * (n + 1 - i) ELSE 2 * i]
Beyond(items, cursor, rev) ==
  IF cursor = NoCursor THEN items
  ELSE SelectSeq(items, LAMBDA k : IF rev THEN k < cursor ELSE k > cursor)
Page(items, cursor, limit, rev) ==
  LET rest == Beyond(items, cursor, rev) IN SubSeq(rest, 1, MinI(Len(rest), Eff(limit)))

\* walk to exhaustion, always continuing from the last key returned
RECURSIVE Walk(_, _, _, _)
Walk(items, cursor, limit, rev) ==
  LET pg == Page(items, cursor, limit, rev) IN
  IF pg = <<>> THEN <<>> ELSE pg \o Walk(items, pg[Len(pg)], limit, rev)
=============================================================================
