---------------------------- MODULE PagingTrace ----------------------------
(***************************************************************************)
(* C20, implementation -> specification: every recorded page of every real *)
(* listing is the page the rule defines for the true item set, every       *)
(* recorded walk is complete, duplicate-free and ordered.                  *)
(***************************************************************************)
EXTENDS Paging, Json, IOUtils, TLC

Rec == ndJsonDeserialize(IOEnv.TRACE)
VARIABLES l, ev
tv == <<l, ev>>
TInit == l = 0 /\ ev = [act |-> "init", ok |-> TRUE, anom |-> <<>>]
TNext == l < Len(Rec) /\ l' = l + 1 /\ ev' = Rec[l + 1]
TSpec == TInit /\ [][TNext]_tv

NoAnomaly == ev.anom = <<>>
TraceAlias == [l |-> l, act |-> ev.act]

C20_QueryAnswers == ev.act \in {"page", "walk"} => ev.ok
C20_PageCorrect == ev.act = "page" /\ ev.ok => ev.keys = Page(Items(ev.n, ev.rev), ev.cursor, ev.limit, ev.rev)
C20_PageBound == ev.act = "page" /\ ev.ok =>
  /\ Len(ev.keys) <= MAX_LIMIT
  /\ ev.limit # NoLimit => Len(ev.keys) <= ev.limit
  /\ ev.limit = NoLimit => Len(ev.keys) <= DEFAULT_LIMIT
C20_WalkComplete == ev.act = "walk" => ev.keys = Items(ev.n, ev.rev)

Accepted ==
  \/ TLCGet("stats").diameter = Len(Rec) + 1
  \/ PrintT(<<"TRACE_NOT_CONSUMED", TLCGet("stats").diameter, Len(Rec)>>) /\ FALSE
=============================================================================
