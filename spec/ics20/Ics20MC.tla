------------------------------ MODULE Ics20MC ------------------------------
(***************************************************************************)
(* Reference machine of cw20-ics20 with its environment for TLC: user      *)
(* transfers, an arbitrary counterparty sending packets of every shape,    *)
(* one acknowledgement or timeout per sent packet in any order, the token  *)
(* payout failing at arbitrary points, governance calls, migration from    *)
(* the pre-allow-list storage format with tokens outstanding.              *)
(***************************************************************************)
EXTENDS Ics20, Json, SequencesExt

CONSTANTS
  Amts,          \* amounts of transfers and incoming packets
  MaxSends,      \* bound on the number of transfers (keeps total_sent finite)
  PktMaxC,       \* largest packet amount (small, so that the 2^64-1 edge is reached)
  Gases,         \* gas limits tried by Allow / migrate (-1 = unlimited / none)
  InitCfgs,      \* set of start configurations [defaultGas, listed, gas, legacy]
  Forms,         \* shapes of incoming voucher denominations
  Govs,          \* callers of the governance entry points
  Donors,        \* users who send money to the contract outside a transfer
  DonDenoms, DonMax,
  Vers,          \* releases whose stored version string the contract starts with ("cur": this one)
  GenMode, GenDepth, GenFail, SampleK

VARIABLES sched, cfgv

mcvars == <<vars, sched, cfgv>>
View == <<svars, credit, ident, IF GenMode /\ GenFail THEN Len(sched) ELSE 0>>
\* transition cover: one BFS path per distinct (state, call that led to it), so that calls which lead to an
\* already known state (no-op calls, self-transfers, alternative ways into a state) get a schedule too
ViewEv == <<View, ev>>

Zero == [c \in Chan |-> [d \in Denom |-> 0]]
Init ==
  \E c0 \in InitCfgs, v0 \in Vers :
    LET pre == IF c0.legacy THEN [c \in Chan |-> [d \in Denom |-> IF c = "ch1" THEN 1 ELSE 0]] ELSE Zero IN
    /\ chan = [c \in Chan |-> [d \in Denom |-> [out |-> 0, sent |-> 0]]]     \* in flight: escrowed, not yet in the books
    /\ held = [d \in Denom |-> SumF(Chan, [c \in Chan |-> pre[c][d]])]
    /\ ubal = [u \in User |-> [d \in Denom |-> IF u = "u1" /\ c0.legacy THEN -1 ELSE 0]]
    /\ defaultGas = IF c0.legacy /\ ~c0.v2 THEN -1 ELSE c0.defaultGas
    /\ admin = IF c0.legacy /\ ~c0.v2 THEN "legacy" ELSE "gov"
    /\ allow = IF c0.legacy /\ ~c0.v2 THEN [listed |-> FALSE, gas |-> -1] ELSE [listed |-> c0.listed, gas |-> c0.gas]
    /\ tokFails = FALSE /\ legacy = c0.legacy /\ regs = {c : c \in Chan}
    /\ pkts = IF c0.legacy THEN <<[ch |-> "ch1", denom |-> "nat", amt |-> 1, sender |-> "u1", done |-> FALSE],
                                   [ch |-> "ch1", denom |-> "tok", amt |-> 1, sender |-> "u1", done |-> FALSE]>> ELSE <<>>
    /\ now = [h |-> 0, t |-> 0] /\ out = <<>> /\ ack = "none"
    /\ credit = pre /\ ident = Zero /\ pktMax = PktMaxC
    /\ ev = [act |-> "reset", by |-> "env", ok |-> TRUE]
    /\ sched = <<>>
    /\ \A i \in 1..20 : TLCSet(100 + i, 0)
    /\ cfgv = [channels |-> SetToSeq(Chan), defaultGas |-> IF c0.legacy /\ ~c0.v2 THEN 100 ELSE c0.defaultGas,
               allow |-> IF c0.legacy /\ ~c0.v2 THEN <<[gas |-> -1]>> ELSE IF c0.listed THEN <<[gas |-> c0.gas]>> ELSE <<>>,
               legacy |-> IF c0.legacy THEN (IF c0.v2 THEN "v2" ELSE "v1") ELSE "none", scale |-> 0, ver |-> v0,
               pre |-> IF c0.legacy THEN <<[act |-> "transfer", by |-> "u1", args |-> [denom |-> "nat", ch |-> "ch1", amt |-> 1, to |-> "remote1"]],
                                            [act |-> "transfer", by |-> "u1", args |-> [denom |-> "tok", ch |-> "ch1", amt |-> 1, to |-> "remote1"]]>>
                       ELSE <<>>]

Ev(a, by, args) == [act |-> a, by |-> by, args |-> args, ok |-> TRUE]
Ready == ~(GenMode /\ Len(sched) >= GenDepth)
GasOK(d) == d # "tok" \/ allow.listed \/ defaultGas # -1
PayoutMsg(d, to, a) == [k |-> "payout", ch |-> "", denom |-> d, amt |-> a, a |-> to, b |-> "", memo |-> "", timeout |-> 0,
                        gas |-> IF d = "tok" THEN TokGas ELSE -1]
Keep == UNCHANGED <<defaultGas, admin, allow, tokFails, legacy, now, pktMax>>

DoTransfer(u, c, d, a) ==
  /\ ~legacy /\ a > 0 /\ a <= PktMaxC /\ GasOK(d) /\ Len(pkts) < MaxSends
  /\ chan' = Bump(chan, c, d, a, a)
  /\ held' = [held EXCEPT ![d] = @ + a] /\ ubal' = [ubal EXCEPT ![u][d] = @ - a]
  /\ pkts' = Append(pkts, [ch |-> c, denom |-> d, amt |-> a, sender |-> u, done |-> FALSE])
  /\ out' = <<[k |-> "packet", ch |-> c, denom |-> d, amt |-> a, a |-> u, b |-> "remote1", memo |-> "", timeout |-> DefaultTimeout, gas |-> -1]>>
  /\ ack' = "none"
  /\ credit' = [credit EXCEPT ![c][d] = @ + a] /\ ident' = [ident EXCEPT ![c][d] = @ + a]
  /\ Keep

\* an incoming packet never fails: it is answered with a success or an error acknowledgement
DoRecv(c, form, d, a, to) ==
  /\ ~legacy
  /\ IF form = "ok" /\ d \in Denom /\ a <= chan[c][d].out /\ GasOK(d) /\ ~(d = "tok" /\ tokFails) /\ to \in User
     THEN /\ chan' = Bump(chan, c, d, -a, 0)
          /\ held' = [held EXCEPT ![d] = @ - a] /\ ubal' = [ubal EXCEPT ![to][d] = @ + a]
          /\ out' = <<PayoutMsg(d, to, a)>> /\ ack' = "ok"
          /\ credit' = [credit EXCEPT ![c][d] = @ - a] /\ ident' = [ident EXCEPT ![c][d] = @ - a]
     ELSE /\ UNCHANGED <<chan, held, ubal, credit, ident>> /\ ack' = "err"
          /\ out' = IF form = "ok" /\ d \in Denom /\ a <= chan[c][d].out /\ GasOK(d) THEN <<PayoutMsg(d, to, a)>> ELSE <<>>
  /\ UNCHANGED pkts /\ Keep

DoFail(i) ==       \* error acknowledgement or timeout of packet i
  LET p == pkts[i] IN
  /\ ~legacy /\ i \in 1..Len(pkts) /\ ~p.done
  /\ chan[p.ch][p.denom].out >= p.amt /\ GasOK(p.denom)
  /\ chan' = Bump(chan, p.ch, p.denom, -p.amt, 0)
  /\ ident' = [ident EXCEPT ![p.ch][p.denom] = @ - p.amt]
  /\ IF p.denom = "tok" /\ tokFails
     THEN UNCHANGED <<held, ubal, credit>>
     ELSE /\ held' = [held EXCEPT ![p.denom] = @ - p.amt] /\ ubal' = [ubal EXCEPT ![p.sender][p.denom] = @ + p.amt]
          /\ credit' = [credit EXCEPT ![p.ch][p.denom] = @ - p.amt]
  /\ out' = <<PayoutMsg(p.denom, p.sender, p.amt)>> /\ ack' = "none"
  /\ pkts' = [pkts EXCEPT ![i].done = TRUE]
  /\ Keep
DoAckOk(i) ==
  /\ ~legacy /\ i \in 1..Len(pkts) /\ ~pkts[i].done
  /\ pkts' = [pkts EXCEPT ![i].done = TRUE]
  /\ out' = <<>> /\ ack' = "none"
  /\ UNCHANGED <<chan, held, ubal, credit, ident>> /\ Keep

DoAllow(by, g) ==
  /\ ~legacy /\ by = admin
  /\ allow.listed => GasLeq(allow.gas, g)
  /\ allow' = [listed |-> TRUE, gas |-> g]
  /\ out' = <<>> /\ ack' = "none"
  /\ UNCHANGED <<chan, held, ubal, defaultGas, admin, tokFails, pkts, legacy, now, credit, ident, pktMax>>
DoUpdateAdmin(by, new) ==
  /\ ~legacy /\ by = admin
  /\ admin' = new
  /\ out' = <<>> /\ ack' = "none"
  /\ UNCHANGED <<chan, held, ubal, defaultGas, allow, tokFails, pkts, legacy, now, credit, ident, pktMax>>
DoMigrate(g) ==
  /\ legacy' = FALSE
  /\ admin' = IF legacy THEN "gov" ELSE admin
  /\ defaultGas' = IF g # -1 THEN g ELSE defaultGas
  /\ out' = <<>> /\ ack' = "none"
  \* v2 step (single channel): what is escrowed but not yet in the books was in flight at the upgrade
  /\ chan' = IF legacy THEN [c \in Chan |-> [d \in Denom |-> IF c = "ch1"
                 THEN [out |-> held[d], sent |-> chan[c][d].sent + (held[d] - chan[c][d].out)] ELSE chan[c][d]]] ELSE chan
  /\ ident' = IF legacy THEN [c \in Chan |-> [d \in Denom |-> chan'[c][d].out]] ELSE ident
  /\ UNCHANGED <<held, ubal, allow, tokFails, pkts, now, credit, pktMax>>
DoDonate(u, d, a) ==
  /\ a > 0
  /\ held' = [held EXCEPT ![d] = @ + a] /\ ubal' = [ubal EXCEPT ![u][d] = @ - a]
  /\ out' = <<>> /\ ack' = "none"
  /\ UNCHANGED <<chan, pkts, credit, ident>> /\ Keep
DoTokFail(on) ==
  /\ tokFails' = on /\ tokFails # on
  /\ out' = <<>> /\ ack' = "none"
  /\ UNCHANGED <<chan, held, ubal, defaultGas, admin, allow, pkts, legacy, now, credit, ident, pktMax>>

Call(e, action) ==
  \/ /\ action
     /\ ev' = [e EXCEPT !.ok = TRUE]
     /\ UNCHANGED <<cfgv, regs>>
     /\ sched' = IF GenMode THEN Append(sched, e) ELSE sched
  \/ /\ GenMode /\ GenFail /\ ~ENABLED action
     /\ ev' = [e EXCEPT !.ok = FALSE]
     /\ UNCHANGED <<svars, credit, ident, pktMax, cfgv>>
     /\ sched' = Append(sched, e)

ATransfer == Ready /\ \E u \in User, c \in Chan, d \in Denom, a \in Amts :
  Call(Ev("transfer", u, [denom |-> d, ch |-> c, amt |-> a, to |-> "remote1"]), DoTransfer(u, c, d, a))
\* ("bad": a receiver string that is no address of this chain - the token refuses to pay it)
ARecv == Ready /\ \E c \in Chan, f \in Forms, d \in Denom \cup {"foo"}, a \in Amts \cup {0}, to \in User \cup {"bad"} :
  /\ to = "bad" => d = "tok"
  /\ Call(Ev("recv", "relayer", [ch |-> c, form |-> f, denom |-> d, amt |-> a, to |-> to]), DoRecv(c, f, d, a, to))
AFail == Ready /\ \E i \in 1..MaxSends, kind \in {"timeout", "nack"} :
  LET p == IF i <= Len(pkts) THEN pkts[i] ELSE [ch |-> "ch1", denom |-> "nat", amt |-> 0, sender |-> "u1", done |-> TRUE]
      a == IF kind = "timeout" THEN [pkt |-> i, ch |-> p.ch, denom |-> p.denom, amt |-> p.amt, sender |-> p.sender]
           ELSE [pkt |-> i, success |-> FALSE, ch |-> p.ch, denom |-> p.denom, amt |-> p.amt, sender |-> p.sender] IN
  Call(Ev(IF kind = "timeout" THEN "timeout" ELSE "ack", "relayer", a), DoFail(i))
AAckOk == Ready /\ \E i \in 1..MaxSends :
  LET p == IF i <= Len(pkts) THEN pkts[i] ELSE [ch |-> "ch1", denom |-> "nat", amt |-> 0, sender |-> "u1", done |-> TRUE] IN
  Call(Ev("ack", "relayer", [pkt |-> i, success |-> TRUE, ch |-> p.ch, denom |-> p.denom, amt |-> p.amt, sender |-> p.sender]), DoAckOk(i))
AAllow == Ready /\ \E by \in Govs, g \in Gases :
  Call(Ev("allow", by, [gas |-> g]), DoAllow(by, g))
AUpdateAdmin == Ready /\ \E by \in Govs, new \in Govs \ {"u1"} :
  Call(Ev("update_admin", by, [new |-> new]), DoUpdateAdmin(by, new))
AMigrate == Ready /\ \E g \in Gases \ {0} :
  Call(Ev("migrate", "creator", [gas |-> g]), DoMigrate(g))
ADonate == Ready /\ \E u \in Donors, d \in DonDenoms, a \in Amts :
  /\ held[d] + a <= SumF(Chan, [c \in Chan |-> chan[c][d].out]) + DonMax     \* (bound for TLC only)
  /\ Call(Ev("donate", u, [denom |-> d, amt |-> a]), DoDonate(u, d, a))
ATokFail == Ready /\ \E on \in BOOLEAN :
  /\ DoTokFail(on)
  /\ ev' = Ev("tokfail", "env", [on |-> on]) /\ UNCHANGED <<cfgv, regs>>
  /\ sched' = IF GenMode THEN Append(sched, ev') ELSE sched

\* a v1 contract is migrated first (code and storage are swapped atomically)
Next == IF legacy THEN AMigrate
        ELSE ATransfer \/ ARecv \/ AFail \/ AAckOk \/ AAllow \/ AUpdateAdmin \/ AMigrate \/ ATokFail \/ ADonate
Spec == Init /\ [][Next]_mcvars

A_C11 == [][C11_HeldWriters /\ C11_BadPacketReleasesNothing]_vars
A_C12 == [][C12_SuccessAckPaid /\ C12_ErrorAckNoChange /\ C12_ReceiveNeverAborts /\ C12_OnePacket /\ C12_SentOnlyGrows
            /\ C12_FailedCallNoChange /\ C12_FailureRefunds /\ C12_SuccessAckKeeps /\ C12_OthersKeepBooks /\ C12_LegacyMigrateRebases /\ C12_DonationNotBooked]_vars
A_C18 == [][C18_AllowMonotone /\ C18_GovOnly /\ C18_GovExact /\ C18_MigrateFromLegacy /\ C18_DefaultGasWriters
            /\ C18_TransferGate /\ C18_PayoutGas]_vars

\* ------------------------------------------------------------------ constants for the .cfg files
Cfg(dg, l, g, lg) == [defaultGas |-> dg, listed |-> l, gas |-> g, legacy |-> lg, v2 |-> FALSE]
CfgV2(dg, l, g) == [defaultGas |-> dg, listed |-> l, gas |-> g, legacy |-> TRUE, v2 |-> TRUE]
InitQ == {Cfg(-1, TRUE, 200, FALSE), Cfg(100, FALSE, -1, FALSE), Cfg(-1, FALSE, -1, TRUE), CfgV2(-1, TRUE, 200)}
InitAll == {Cfg(-1, TRUE, 200, FALSE), Cfg(-1, TRUE, -1, FALSE), Cfg(100, FALSE, -1, FALSE), Cfg(100, TRUE, 200, FALSE),
            Cfg(-1, FALSE, -1, FALSE), Cfg(-1, FALSE, -1, TRUE), CfgV2(-1, TRUE, 200), CfgV2(100, FALSE, -1)}
InitAllNoLegacy == {c \in InitAll : ~c.legacy}
InitLegacy == {Cfg(-1, FALSE, -1, TRUE), CfgV2(-1, TRUE, 200), CfgV2(100, FALSE, -1)}
InitTok == {Cfg(-1, TRUE, 200, FALSE), Cfg(100, FALSE, -1, FALSE)}
GasesQ == {-1, 100, 300}
GasesS == {-1, 100}
FormsAll == {"ok", "otherport", "otherchan", "foreign"}
FormsQ == {"ok", "otherchan"}

EmitSchedule ==
  (GenMode /\ GenFail /\ Len(sched) = GenDepth) => PrintT(<<"SCHED", ToJson([cfg |-> cfgv, steps |-> sched])>>)
\* corner states whose BFS path is always emitted (once per worker), whatever the sampling rate
Goals == <<
  \E c \in Chan, d \in Denom : chan[c][d].sent > 0 /\ chan[c][d].out = 0,       \* everything sent came back or failed
  \E c \in Chan : credit[c]["tok"] > chan[c]["tok"].out,                          \* a refund failed: books reduced, money kept
  allow.listed /\ allow.gas = -1,                                                 \* token allowed without limit
  admin = "gov2",                                                                 \* governance handed over
  ~legacy /\ cfgv.legacy # "none" /\ \E i \in 1..Len(pkts) : pkts[i].done,        \* a pre-upgrade packet settled after migration
  tokFails /\ \E i \in 1..Len(pkts) : ~pkts[i].done /\ pkts[i].denom = "tok",     \* token failing with a tok packet in flight
  \E d \in Denom : held[d] > SumF(Chan, [c \in Chan |-> chan[c][d].out])          \* holdings above the books
>>
NewGoal == \E i \in 1..Len(Goals) : Goals[i] /\ TLCGet(100 + i) = 0 /\ TLCSet(100 + i, 1)
EmitSampled ==
  (GenMode /\ ~GenFail /\ Len(sched) > 0) =>
     (IF NewGoal \/ TLCGet("distinct") % SampleK = 0
      THEN PrintT(<<"SCHED", ToJson([cfg |-> cfgv, steps |-> sched])>>) ELSE TRUE)
=============================================================================
