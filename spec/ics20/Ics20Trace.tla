----------------------------- MODULE Ics20Trace -----------------------------
(***************************************************************************)
(* Trace validation for cw20-ics20: replays the events recorded from the   *)
(* real contract (execute, IBC entry points, reply handler, real token and *)
(* bank), infers the histories from the calls and checks Ics20's formulas. *)
(***************************************************************************)
EXTENDS Ics20, Json, IOUtils, SequencesExt

Rec == ndJsonDeserialize(IOEnv.TRACE)

VARIABLE l
tv == <<vars, l>>

ChanOf(o) == [c \in Chan |-> [d \in Denom |-> [out |-> o.chan[c][d].out, sent |-> o.chan[c][d].sent]]]
OutOf(o) == [c \in Chan |-> [d \in Denom |-> o.chan[c][d].out]]

TInit ==
  /\ l = 0
  /\ chan = [c \in Chan |-> [d \in Denom |-> [out |-> 0, sent |-> 0]]]
  /\ held = [d \in Denom |-> 0] /\ ubal = [u \in User |-> [d \in Denom |-> 0]]
  /\ defaultGas = -1 /\ admin = "gov" /\ allow = [listed |-> FALSE, gas |-> -1] /\ tokFails = FALSE
  /\ pkts = <<>> /\ legacy = FALSE /\ regs = {} /\ now = [h |-> 0, t |-> 0] /\ out = <<>> /\ ack = "none"
  /\ credit = [c \in Chan |-> [d \in Denom |-> 0]] /\ ident = [c \in Chan |-> [d \in Denom |-> 0]] /\ pktMax = -1
  /\ ev = [act |-> "init", ok |-> TRUE, anom |-> <<>>]

Fails(e) == e.act = "timeout" \/ (e.act = "ack" /\ ~e.args.success)

TNext ==
  /\ l < Len(Rec)
  /\ l' = l + 1
  /\ LET e == Rec[l + 1]
         reset == e.act = "reset"
         H == [d \in Denom |-> e.obs.held[d]]
     IN
     /\ ev' = e
     /\ chan' = ChanOf(e.obs)
     /\ held' = H
     /\ ubal' = [u \in User |-> [d \in Denom |-> e.obs.ubal[u][d]]]
     /\ defaultGas' = e.obs.defaultGas /\ admin' = e.obs.admin /\ allow' = e.obs.allow
     /\ tokFails' = e.obs.tokFails /\ legacy' = e.obs.legacy /\ regs' = ToSet(e.obs.regs)
     /\ now' = e.now /\ out' = e.out /\ ack' = e.ack
     /\ pktMax' = IF reset THEN e.cfg.pktMax ELSE pktMax
     /\ pkts' = IF reset THEN e.cfg.prepkts
                ELSE IF e.ok /\ e.act = "transfer"
                     THEN Append(pkts, [ch |-> e.args.ch, denom |-> e.args.denom, amt |-> e.args.amt, sender |-> e.by, done |-> FALSE])
                ELSE IF e.ok /\ e.act \in {"ack", "timeout"} /\ e.args.pkt \in 1..Len(pkts)
                     THEN [pkts EXCEPT ![e.args.pkt].done = TRUE]
                ELSE pkts
     \* escrowed - paid out: what went in through accepted transfers minus every observed decrease of the holdings,
     \* attributed to the channel of the packet being handled
     /\ credit' = IF reset THEN (IF e.obs.legacy THEN [c \in Chan |-> [d \in Denom |-> IF c = "ch1" THEN H[d] ELSE 0]] ELSE OutOf(e.obs))
                  ELSE IF e.ok /\ e.act = "transfer" /\ e.args.ch \in Chan /\ e.args.denom \in Denom
                       THEN [credit EXCEPT ![e.args.ch][e.args.denom] = @ + e.args.amt]
                  ELSE IF e.act \in {"recv", "ack", "timeout"} /\ e.args.ch \in Chan
                       THEN [credit EXCEPT ![e.args.ch] = [d \in Denom |-> @[d] - (IF held[d] > H[d] THEN held[d] - H[d] ELSE 0)]]
                  ELSE credit
     \* sent - failed - redeemed
     /\ ident' = IF reset \/ (legacy /\ e.ok /\ e.act = "migrate") THEN OutOf(e.obs)
                 ELSE IF e.ok /\ e.act = "transfer" /\ e.args.ch \in Chan /\ e.args.denom \in Denom
                      THEN [ident EXCEPT ![e.args.ch][e.args.denom] = @ + e.args.amt]
                 ELSE IF e.ok /\ Fails(e) /\ e.args.ch \in Chan /\ e.args.denom \in Denom
                      THEN [ident EXCEPT ![e.args.ch][e.args.denom] = @ - e.args.amt]
                 ELSE IF e.act = "recv" /\ e.ack = "ok" /\ e.args.ch \in Chan /\ e.args.denom \in Denom
                      THEN [ident EXCEPT ![e.args.ch][e.args.denom] = @ - e.args.amt]
                 ELSE ident

TSpec == TInit /\ [][TNext]_tv

\* the harness played an honest IBC core: every ack / timeout refers to a packet the contract really sent, once
EnvHonest == ev.act \in {"ack", "timeout"} =>
  /\ ev.args.pkt \in 1..Len(pkts)
  /\ LET p == pkts[ev.args.pkt] IN p.ch = ev.args.ch /\ p.denom = ev.args.denom /\ p.amt = ev.args.amt /\ p.sender = ev.args.sender
NoAnomaly == ev.anom = <<>> /\ EnvHonest
TraceAlias == [l |-> l, act |-> ev.act]

T_C18_Init == [][C18_Init]_tv
T_UpgradeKeepsState == [][UpgradeKeepsState]_tv
T_C11_HeldWriters == [][C11_HeldWriters]_tv
T_C11_BadPacketReleasesNothing == [][C11_BadPacketReleasesNothing]_tv
T_C12_FailureMustSettle == [][C12_FailureMustSettle]_tv
T_C12_SuccessAckPaid == [][C12_SuccessAckPaid]_tv
T_C12_ErrorAckNoChange == [][C12_ErrorAckNoChange]_tv
T_C12_ReceiveNeverAborts == [][C12_ReceiveNeverAborts]_tv
T_C12_OnePacket == [][C12_OnePacket]_tv
T_C12_SentOnlyGrows == [][C12_SentOnlyGrows]_tv
T_C12_FailedCallNoChange == [][C12_FailedCallNoChange]_tv
T_C12_FailureRefunds == [][C12_FailureRefunds]_tv
T_C12_SuccessAckKeeps == [][C12_SuccessAckKeeps]_tv
T_C12_OthersKeepBooks == [][C12_OthersKeepBooks]_tv
T_C12_DonationNotBooked == [][C12_DonationNotBooked]_tv
T_C12_LegacyMigrateRebases == [][C12_LegacyMigrateRebases]_tv
T_XI_OpenRule == [][XI_OpenRule]_tv
T_XI_ConnectRule == [][XI_ConnectRule]_tv
T_XI_RegsWriters == [][XI_RegsWriters]_tv
T_C18_AllowMonotone == [][C18_AllowMonotone]_tv
T_C18_GovOnly == [][C18_GovOnly]_tv
T_C18_GovExact == [][C18_GovExact]_tv
T_C18_MigrateFromLegacy == [][C18_MigrateFromLegacy]_tv
T_C18_DefaultGasWriters == [][C18_DefaultGasWriters]_tv
T_C18_TransferGate == [][C18_TransferGate]_tv
T_C18_PayoutGas == [][C18_PayoutGas]_tv

Accepted ==
  \/ TLCGet("stats").diameter = Len(Rec) + 1
  \/ PrintT(<<"TRACE_NOT_CONSUMED", TLCGet("stats").diameter, Len(Rec)>>) /\ FALSE
=============================================================================
