------------------------------- MODULE Ics20 -------------------------------
(***************************************************************************)
(* cw20-ics20: channel books, escrow, governance state, and the formulas   *)
(* of properties C11, C12, C18.  The environment (relayer, counterparty,   *)
(* token with a failure switch) is part of the model: an arbitrary, even   *)
(* malicious counterparty constrained only by what IBC core guarantees     *)
(* (one acknowledgement or timeout per sent packet; packets arrive on an   *)
(* existing channel with that channel's endpoints).                        *)
(***************************************************************************)
EXTENDS Integers, Sequences, FiniteSets, TLC

CONSTANTS Chan, Denom, User    \* {"ch1","ch2"}, {"nat","tok"}, {"u1","u2"}

VARIABLES
  chan,        \* [Chan -> [Denom -> [out, sent]]]   Channel{id}: outstanding balance and total sent
  held,        \* [Denom -> Nat]                     what the contract really holds (bank / cw20 balance)
  ubal,        \* [User -> [Denom -> Int]]           user balances relative to their initial funding
  defaultGas,  \* -1 = not configured
  admin,       \* governance address ("legacy" before a v1 contract is migrated)
  allow,       \* [listed, gas]                      allow-list entry of the cw20 token, gas -1 = unlimited
  tokFails,    \* the cw20 token currently refuses payouts (fault injection)
  pkts,        \* sequence of packets we sent: [ch, denom, amt, sender, done]
  legacy,      \* TRUE while a pre-allow-list (v1) contract has not been migrated
  regs,        \* set of registered channels "id>port:channel" (ListChannels)
  now, out, ack,
  credit,      \* history [Chan -> [Denom -> Int]]: escrowed - paid out, per channel and denomination
  ident,       \* history [Chan -> [Denom -> Int]]: sent - failed - redeemed
  pktMax,      \* largest amount an ICS-20 packet can carry (2^64-1) in the run's scale, -1 = unreachable
  ev

svars == <<chan, held, ubal, defaultGas, admin, allow, tokFails, pkts, legacy, regs, now, out, ack>>
vars == <<chan, held, ubal, defaultGas, admin, allow, tokFails, pkts, legacy, regs, now, out, ack, credit, ident, pktMax, ev>>

RECURSIVE SumF(_, _)
SumF(S, f) == IF S = {} THEN 0 ELSE LET x == CHOOSE y \in S : TRUE IN f[x] + SumF(S \ {x}, f)

E == ev'
Ok == E.ok
IsOk(a) == E.act = a /\ E.ok
Step == E.act # "reset"
Books == <<chan, held, ubal>>
DefaultTimeout == 100

\* gas limits: -1 is "unlimited", the top of the order
GasLeq(g1, g2) == g2 = -1 \/ (g1 # -1 /\ g1 <= g2)
TokGas == IF allow.listed THEN allow.gas ELSE defaultGas       \* limit used for a payout of the cw20 token

Bump(c, ch, d, dout, dsent) == [c EXCEPT ![ch][d] = [out |-> @.out + dout, sent |-> @.sent + dsent]]

\* upgrade of a deployed contract: a fixture run starts from the world (both contracts' storage, bank, packets in flight)
\* recorded from the released code; what the code under test reads from it is what the release reported
FromFixture == "fixture" \in DOMAIN E.cfg
UpgradeKeepsState == E.act = "reset" /\ Ok /\ FromFixture => E.obs = E.cfg.expect

\* ------------------------------------------------------------------ C11
C11_Solvent == \A d \in Denom : held[d] >= SumF(Chan, [c \in Chan |-> chan[c][d].out])
C11_ChannelBound == \A c \in Chan : \A d \in Denom : credit[c][d] >= 0
\* holdings move only by an accepted transfer (in) or by handling a packet, ack or timeout (out)
C11_HeldWriters == Step => \A d \in Denom :
  /\ held'[d] > held[d] => Ok /\ E.act \in {"transfer", "donate"} /\ E.args.denom = d /\ held'[d] = held[d] + E.args.amt
  /\ held'[d] < held[d] => Ok /\ E.act \in {"recv", "ack", "timeout"} /\ E.args.denom = d /\ held[d] - held'[d] = E.args.amt
GoodPacket(e) == e.args.form = "ok" /\ e.args.ch \in Chan /\ e.args.denom \in Denom /\ e.args.to \in User
                   /\ e.args.amt <= chan[e.args.ch][e.args.denom].out
C11_BadPacketReleasesNothing == Step /\ E.act = "recv" /\ ~GoodPacket(E) =>
  ack' # "ok" /\ chan' = chan /\ held' = held /\ ubal' = ubal

\* ------------------------------------------------------------------ C12
C12_Identity == ~legacy => \A c \in Chan : \A d \in Denom : chan[c][d].out = ident[c][d]
C12_SuccessAckPaid == Step /\ E.act = "recv" /\ ack' = "ok" =>
  /\ GoodPacket(E)
  /\ LET c == E.args.ch  d == E.args.denom  a == E.args.amt IN
     /\ chan' = Bump(chan, c, d, -a, 0)
     /\ held' = [held EXCEPT ![d] = @ - a]
     /\ ubal' = [ubal EXCEPT ![E.args.to][d] = @ + a]
C12_ErrorAckNoChange == Step /\ E.act = "recv" /\ ack' # "ok" => chan' = chan /\ held' = held /\ ubal' = ubal
C12_ReceiveNeverAborts == Step /\ E.act = "recv" => Ok /\ ack' \in {"ok", "err"}
C12_OnePacket == Step /\ IsOk("transfer") =>
  LET c == E.args.ch  d == E.args.denom  a == E.args.amt IN
  /\ c \in Chan /\ d \in Denom /\ a > 0
  /\ pktMax # -1 => a <= pktMax
  /\ out' = <<[k |-> "packet", ch |-> c, denom |-> d, amt |-> a, a |-> E.by, b |-> E.args.to,
               memo |-> IF "memo" \in DOMAIN E.args THEN E.args.memo ELSE "",
               timeout |-> IF "timeout" \in DOMAIN E.args THEN E.args.timeout ELSE DefaultTimeout, gas |-> -1]>>
  /\ chan' = Bump(chan, c, d, a, a)
  /\ held' = [held EXCEPT ![d] = @ + a]
  /\ ubal' = [ubal EXCEPT ![E.by][d] = @ - a]
C12_SentOnlyGrows == Step => \A c \in Chan : \A d \in Denom :
  chan'[c][d].sent # chan[c][d].sent => (IsOk("transfer") /\ E.args.ch = c /\ E.args.denom = d) \/ (legacy /\ IsOk("migrate"))
C12_FailedCallNoChange == Step /\ ~Ok => chan' = chan /\ held' = held /\ ubal' = ubal /\ out' = <<>>
\* an error acknowledgement or a timeout of one of our packets releases the escrow back to the sender
\* (the books are reduced even if the refund sub-call fails, which only the faulty token can cause)
C12_FailureRefunds == Step /\ Ok /\ (E.act = "timeout" \/ (E.act = "ack" /\ ~E.args.success)) =>
  LET c == E.args.ch  d == E.args.denom  a == E.args.amt  s == E.args.sender IN
  /\ chan' = Bump(chan, c, d, -a, 0)
  /\ \/ held' = [held EXCEPT ![d] = @ - a] /\ ubal' = [ubal EXCEPT ![s][d] = @ + a]
     \/ d = "tok" /\ tokFails /\ held' = held /\ ubal' = ubal
\* a timeout or an error acknowledgement of one of our packets is always settled: the handler may not abort (the
\* relayer could only retry, the escrow would stay locked).  The one expected refusal is a cw20 packet of a
\* deployment upgraded from the pre-allow-list format without a default limit: the token cannot be paid out at all.
C12_FailureMustSettle == Step /\ ~legacy /\ (E.act = "timeout" \/ (E.act = "ack" /\ ~E.args.success))
                           /\ (E.args.denom # "tok" \/ allow.listed \/ defaultGas # -1)
                           /\ E.args.ch \in Chan /\ E.args.denom \in Denom
                           /\ chan[E.args.ch][E.args.denom].out >= E.args.amt      \* (a lying counterparty may have redeemed it already)
                           => Ok
C12_SuccessAckKeeps == Step /\ IsOk("ack") /\ E.args.success => chan' = chan /\ held' = held /\ ubal' = ubal /\ out' = <<>>
C12_OthersKeepBooks == Step /\ E.act \notin {"transfer", "recv", "ack", "timeout", "donate"} /\ ~(legacy /\ E.act = "migrate") =>
  chan' = chan /\ held' = held /\ ubal' = ubal
\* money that reaches the contract outside a transfer (plain bank send, cw20 Transfer) is in no channel's books
C12_DonationNotBooked == Step /\ E.act = "donate" => chan' = chan /\ out' = <<>>
\* the old storage format credited a channel only on a success acknowledgement: packets in flight at the
\* upgrade are escrowed but not in the books.  Migration brings the books up to the holdings (sent and
\* outstanding grow by the same in-flight amount) and moves no money.
C12_LegacyMigrateRebases == Step /\ legacy /\ IsOk("migrate") =>
  /\ held' = held /\ ubal' = ubal
  /\ \A d \in Denom : SumF(Chan, [c \in Chan |-> chan'[c][d].out]) = held[d]
  /\ \A c \in Chan : \A d \in Denom :
       /\ chan'[c][d].out >= chan[c][d].out
       /\ chan'[c][d].sent - chan[c][d].sent = chan'[c][d].out - chan[c][d].out

\* ------------------------------------------------------------------ C18
\* an accepted instantiate stores the configured default limit and the initial allow list as given
\* (an entry without a limit stays without a limit, whatever the default is)
C18_Init == E.act = "reset" /\ Ok /\ ~FromFixture /\ E.cfg.legacy = "none" =>
  /\ defaultGas' = E.cfg.defaultGas
  /\ allow' = IF Len(E.cfg.allow) = 0 THEN [listed |-> FALSE, gas |-> -1] ELSE [listed |-> TRUE, gas |-> E.cfg.allow[1].gas]
C18_AllowMonotone == Step /\ ~legacy =>
  /\ allow.listed => allow'.listed /\ GasLeq(allow.gas, allow'.gas)
C18_GovOnly == Step /\ ~legacy /\ (allow' # allow \/ admin' # admin) =>
  /\ Ok /\ E.by = admin
  /\ \/ E.act = "allow" /\ admin' = admin /\ allow' = [listed |-> TRUE, gas |-> E.args.gas]
     \/ E.act = "update_admin" /\ allow' = allow /\ admin' = E.args.new
C18_GovExact == Step /\ Ok =>
  /\ E.act = "allow" => E.by = admin /\ allow' = [listed |-> TRUE, gas |-> E.args.gas]
  /\ E.act = "update_admin" => E.by = admin /\ admin' = E.args.new
\* migrating a v1 contract hands governance to the old gov_contract and drops nothing
C18_MigrateFromLegacy == Step /\ legacy /\ IsOk("migrate") =>
  /\ ~legacy'
  /\ IF admin = "legacy" THEN admin' = "gov"             \* v1: the old gov_contract becomes the admin
     ELSE admin' = admin /\ allow' = allow               \* v2: governance state is already in today's layout
C18_DefaultGasWriters == Step /\ defaultGas' # defaultGas => IsOk("migrate") /\ E.args.gas # -1 /\ defaultGas' = E.args.gas
C18_TransferGate == Step /\ IsOk("transfer") /\ E.args.denom = "tok" => allow.listed \/ defaultGas # -1
Payouts(o) == SelectSeq(o, LAMBDA m : m.k = "payout")
C18_PayoutGas == Step => \A i \in 1..Len(out') :
  out'[i].k = "payout" => out'[i].gas = IF out'[i].denom = "tok" THEN TokGas ELSE -1
\* ------------------------------------------------------------------ beyond the listed properties
\* IBC channel handshake (ibc_channel_open / ibc_channel_connect): only unordered ics20-1 channels
GoodShake(e) == e.args.version = "ics20-1" /\ e.args.order = "unordered"
XI_OpenRule == Step /\ IsOk("chan_open") => GoodShake(E) /\ E.args.cpv \in {"none", "ics20-1"} /\ regs' = regs
XI_ConnectRule == Step /\ IsOk("chan_connect") => GoodShake(E) /\ E.args.ch \in Chan /\ \E r \in regs' : regs' = regs \cup {r}
XI_RegsWriters == Step /\ regs' # regs => IsOk("chan_connect")
=============================================================================
