-------------------------- MODULE Cw3ThresholdMC --------------------------
(***************************************************************************)
(* C04 at the design level: the transcription of the code agrees with the  *)
(* documented rules on a complete small domain — every total up to MaxT,   *)
(* every split into yes/no/abstain/veto/unvoted, every AbsoluteCount       *)
(* weight, a grid of percentages and quorums, expired or not.  One initial *)
(* state per case; Next stutters.                                          *)
(***************************************************************************)
EXTENDS Cw3Threshold, TLC

CONSTANTS MaxT, Pcts, Quos, NeedYes

VARIABLES thr, T, v, expired
cvars == <<thr, T, v, expired>>

Thresholds(t) ==
  { [kind |-> "count", weight |-> w, p |-> 0, q |-> 0] : w \in 1..(IF t = 0 THEN 1 ELSE t) } \cup
  { [kind |-> "pct", weight |-> 0, p |-> p, q |-> 0] : p \in Pcts } \cup
  { [kind |-> "quorum", weight |-> 0, p |-> p, q |-> q] : p \in Pcts, q \in Quos }

Init ==
  /\ T \in 0..MaxT
  /\ v \in { [yes |-> a, no |-> b, abstain |-> c, veto |-> d] :
               <<a, b, c, d>> \in { u \in (0..T) \X (0..T) \X (0..T) \X (0..T) : u[1] + u[2] + u[3] + u[4] <= T } }
  /\ thr \in Thresholds(T)
  /\ (thr.kind = "count" => thr.weight <= T)     \* Threshold::validate
  /\ expired \in BOOLEAN
Next == UNCHANGED cvars
Spec == Init /\ [][Next]_cvars

\* after expiry the decision is the documented rule
AfterExpiryExact == expired => (ImplPassed(thr, T, v, TRUE, NeedYes) <=> DocPassedAtEnd(thr, T, v))
NeverPassedWithoutYes == ImplPassed(thr, T, v, expired, NeedYes) => v.yes > 0
\* before expiry Passed exactly when every completion passes, Rejected only when none can
EarlyPassExact == ~expired => (ImplPassed(thr, T, v, FALSE, NeedYes) <=> PassCertain(thr, T, v))
EarlyRejectSound == ~expired /\ ImplRejected(thr, T, v, FALSE) => CannotPass(thr, T, v)
AfterExpiryRejectSound == expired /\ ImplRejected(thr, T, v, TRUE) => ~DocPassedAtEnd(thr, T, v)
NotBoth == ~(ImplPassed(thr, T, v, expired, NeedYes) /\ ImplRejected(thr, T, v, expired))
\* the closed forms used on traces are the quantified notions
RulePassedIsCertain == IF expired THEN RulePassed(thr, T, v, TRUE) <=> DocPassedAtEnd(thr, T, v)
                                  ELSE RulePassed(thr, T, v, FALSE) <=> PassCertain(thr, T, v)
RuleCanPassExact == RuleCanPass(thr, T, v) <=> ~CannotPass(thr, T, v)
NeededExact == \A w \in 0..MaxT : \A p \in Pcts \cup Quos \cup {PDEN - x : x \in Pcts} : ImplNeeded(w, p) = ExactNeeded(w, p)
=============================================================================
