------------------------------ MODULE Cw3Trace ------------------------------
(***************************************************************************)
(* Trace validation for the two multisigs: replays the recorded events     *)
(* (state projected through the public queries after every call), infers   *)
(* the history variables from the calls, and checks the formulas of Cw3.   *)
(***************************************************************************)
EXTENDS Cw3, Json, IOUtils, SequencesExt

Rec == ndJsonDeserialize(IOEnv.TRACE)

VARIABLE l
tv == <<vars, l>>

PropOf(o) ==
  [id |-> o.id, status |-> o.status, lstatus |-> o.lstatus, rstatus |-> o.rstatus, ltotal |-> o.ltotal, rtotal |-> o.rtotal, expires |-> o.expires,
   thr |-> [kind |-> o.thr.kind, weight |-> o.thr.weight, p |-> o.thr.p, q |-> o.thr.q],
   total |-> o.thr.total, proposer |-> o.proposer, msgs |-> o.msgs, title |-> o.title, dep |-> o.dep,
   ballots |-> [a \in Addr |->
      LET m == {v \in ToSet(o.votes) : v.voter = a} IN
      IF m = {} THEN NoBallot ELSE LET v == CHOOSE x \in m : TRUE IN [vote |-> v.vote, w |-> v.w]],
   nvotes |-> Len(o.votes),
   osnap |-> [a \in Addr |-> o.snap[a]]]

Old(h, id, dflt) == IF id <= Len(h) THEN h[id] ELSE dflt

TInit ==
  /\ l = 0
  /\ cfg = [flavour |-> "fixed", thr |-> [kind |-> "count", weight |-> 1, p |-> 0, q |-> 0], period |-> [k |-> "h", v |-> 1],
            executor |-> "none", dep |-> NoDep]
  /\ props = <<>> /\ voters = [a \in Addr |-> -1] /\ gtotal = 0 /\ startVoters = [a \in Addr |-> -1] /\ dirty = FALSE
  /\ bal = [a \in Addr \cup {"ms"} |-> 0] /\ qx = [thrq |-> [kind |-> "none", weight |-> 0, p |-> 0, q |-> 0, total |-> 0], lvoters |-> {}, voteq |-> {}, dtokfail |-> FALSE] /\ now = [h |-> 0, t |-> 0] /\ out = <<>>
  /\ snap = <<>> /\ execd = <<>> /\ closedH = <<>> /\ held = <<>> /\ rejEarly = <<>> /\ sameBlk = <<>>
  /\ ev = [act |-> "init", ok |-> TRUE, anom |-> <<>>]

TNext ==
  /\ l < Len(Rec)
  /\ l' = l + 1
  /\ LET e == Rec[l + 1]
         reset == e.act = "reset"
         P == [i \in 1..Len(e.obs.props) |-> PropOf(e.obs.props[i])]
         V == [a \in Addr |-> e.obs.voters[a]]
         n == Len(P)
         newp == ~reset /\ e.ok /\ e.act = "propose"
         on(id, a) == ~reset /\ e.ok /\ e.act = a /\ e.args.id = id
         C == IF reset THEN e.cfg ELSE cfg
     IN
     /\ ev' = e
     /\ cfg' = IF reset THEN [flavour |-> e.cfg.flavour, thr |-> e.cfg.thr, period |-> e.cfg.period,
                              executor |-> e.cfg.executor, dep |-> e.cfg.dep] ELSE cfg
     /\ props' = P
     /\ voters' = V
     /\ gtotal' = e.obs.gtotal
     /\ bal' = [a \in Addr \cup {"ms"} |-> e.obs.bal[a]]
     /\ qx' = [thrq |-> e.obs.thrq, lvoters |-> ToSet(e.obs.lvoters), voteq |-> ToSet(e.obs.voteq), dtokfail |-> e.obs.dtokfail]
     /\ now' = e.now
     /\ out' = e.out
     /\ startVoters' = IF reset THEN V ELSE IF e.act = "advance" /\ e.args.dh > 0 THEN V ELSE startVoters
     /\ dirty' = IF reset THEN FALSE ELSE IF e.act = "advance" /\ e.args.dh > 0 THEN FALSE
                 ELSE dirty \/ (e.act = "group_update" /\ e.ok /\ V # voters)
     /\ snap' = [id \in 1..n |-> IF reset \/ id > Len(snap) THEN (IF C.flavour = "flex" /\ ~reset THEN startVoters ELSE (IF reset THEN V ELSE voters)) ELSE snap[id]]
     /\ execd' = [id \in 1..n |-> (IF reset THEN 0 ELSE Old(execd, id, 0)) + (IF on(id, "execute") THEN 1 ELSE 0)]
     /\ closedH' = [id \in 1..n |-> (IF reset THEN FALSE ELSE Old(closedH, id, FALSE)) \/ on(id, "close")]
     /\ held' = [id \in 1..n |->
          IF ~reset /\ id <= Len(held)
          THEN (IF on(id, "execute") \/ (on(id, "close") /\ props[id].dep.refund) THEN 0 ELSE held[id])
          ELSE (IF P[id].dep.kind # "none" THEN 1 ELSE 0)]
     /\ rejEarly' = [id \in 1..n |->
          \/ (~reset /\ Old(rejEarly, id, FALSE))
          \/ (P[id].status = "rejected" /\ ~Expired(P[id].expires, e.now))
          \/ (newp /\ id = n /\ P[id].status = "rejected")]
     /\ sameBlk' = [id \in 1..n |-> IF ~reset /\ id <= Len(sameBlk) THEN sameBlk[id] ELSE (~reset /\ dirty)]

TSpec == TInit /\ [][TNext]_tv

NoAnomaly == ev.anom = <<>>
TraceAlias == [l |-> l, act |-> ev.act]

\* ballots by addresses outside the model's universe cannot exist (nobody else is ever a member)
C06_OnlyKnownVoters == \A id \in Ids : props[id].nvotes = Cardinality({a \in Addr : props[id].ballots[a].vote # "none"})

T_C03_ExecuteAdmitted == [][C03_ExecuteAdmitted]_tv
T_C03_CloseAdmitted == [][C03_CloseAdmitted]_tv
T_C03_ExecuteMustBeAdmitted == [][C03_ExecuteMustBeAdmitted]_tv
T_C05_DispatchExact == [][C05_DispatchExact]_tv
T_C05_ExecutorRule == [][C05_ExecutorRule]_tv
T_C05_FailedKeeps == [][C05_FailedKeeps]_tv
T_C05_StatusMonotone == [][C05_StatusMonotone]_tv
T_C05_IdsIncrease == [][C05_IdsIncrease]_tv
T_C05_Immutable == [][C05_Immutable]_tv
T_C05_ExpiryBounded == [][C05_ExpiryBounded]_tv
T_C05_CloseOnlyExpiredFailed == [][C05_CloseOnlyExpiredFailed]_tv
T_C05_VoteEmitsNothing == [][C05_VoteEmitsNothing]_tv
T_C06_OneBallot == [][C06_OneBallot]_tv
T_X3_HookCallRefused == [][X3_HookCallRefused]_tv
T_C06_VoteWindow == [][C06_VoteWindow]_tv
T_C06_BallotWeight == [][C06_BallotWeight]_tv
T_C06_ProposerBallot == [][C06_ProposerBallot]_tv
T_C06_LaterChangesIrrelevant == [][C06_LaterChangesIrrelevant]_tv
T_C06_FixedTableStatic == [][C06_FixedTableStatic]_tv
T_C15_ProposeTakes == [][C15_ProposeTakes]_tv
T_C15_RefundOnExecute == [][C15_RefundOnExecute]_tv
T_C15_RefundOnClose == [][C15_RefundOnClose]_tv
T_C15_NoOtherMoves == [][C15_NoOtherMoves]_tv
T_C15_CloseMustSucceed == [][C15_CloseMustSucceed]_tv

Accepted ==
  \/ TLCGet("stats").diameter = Len(Rec) + 1
  \/ PrintT(<<"TRACE_NOT_CONSUMED", TLCGet("stats").diameter, Len(Rec)>>) /\ FALSE
=============================================================================
