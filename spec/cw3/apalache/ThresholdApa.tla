---------------------------- MODULE ThresholdApa ----------------------------
(***************************************************************************)
(* C04 over unbounded integers (Apalache, SMT): the rounding identity of   *)
(* votes_needed for all u64 weights, and the soundness of the early        *)
(* decisions for every completion of the outstanding votes, all three      *)
(* threshold kinds.  Checked as invariants of the initial states           *)
(* (--length=0): Init constrains the variables, Next stutters.             *)
(***************************************************************************)
EXTENDS Integers

VARIABLES
  \* @type: Int;
  T,
  \* @type: Int;
  y,
  \* @type: Int;
  n,
  \* @type: Int;
  a,
  \* @type: Int;
  v,
  \* @type: Int;
  dy,
  \* @type: Int;
  dn,
  \* @type: Int;
  da,
  \* @type: Int;
  dv,
  \* @type: Int;
  p,
  \* @type: Int;
  q,
  \* @type: Int;
  w,
  \* @type: Int;
  cw,
  \* @type: Int;
  p18

P9 == 1000000000
P18 == 1000000000000000000
U64 == 18446744073709551615

CeilDiv(x, d) == (x + d - 1) \div d
\* votes_needed with a percentage of up to 9 decimals (q9 = pct * 10^9): Uint128(10^9 * w).mul_floor(pct), ceil-div by 10^9
Impl9(wt, q9) == CeilDiv((P9 * wt * (q9 * P9)) \div P18, P9)
Exact9(wt, q9) == CeilDiv(wt * q9, P9)
\* with 18 decimals
Impl18(wt, pp) == CeilDiv((P9 * wt * pp) \div P18, P9)
Exact18(wt, pp) == CeilDiv(wt * pp, P18)

Init ==
  /\ T \in Nat /\ T <= U64
  /\ y \in Nat /\ n \in Nat /\ a \in Nat /\ v \in Nat
  /\ dy \in Nat /\ dn \in Nat /\ da \in Nat /\ dv \in Nat
  /\ y + n + a + v + dy + dn + da + dv <= T
  /\ p \in Nat /\ p >= 500000000 /\ p <= P9
  /\ q \in Nat /\ q >= 1 /\ q <= P9
  /\ w \in Nat /\ w <= U64
  /\ cw \in Nat /\ cw >= 1 /\ cw <= T
  /\ p18 \in Nat /\ p18 <= P18
Next == UNCHANGED <<T, y, n, a, v, dy, dn, da, dv, p, q, w, cw, p18>>

\* ---- rounding
NeededExact9 == Impl9(w, q) = Exact9(w, q) /\ Impl9(w, q) <= U64
NeededWithinOne18 == Impl18(w, p18) <= Exact18(w, p18) /\ Exact18(w, p18) <= Impl18(w, p18) + 1

\* ---- early decisions, evaluated against the final outcome after any completion (dy, dn, da, dv)
Needed(wt, pp) == CeilDiv(wt * pp, P9)
y2 == y + dy
n2 == n + dn
a2 == a + da
v2 == v + dv
\* quorum rule
QPassedOpen == y > 0 /\ y + n + a + v >= Needed(T, q) /\ y >= Needed(T - a, p)
QRejectedOpen == n > Needed(T - a, P9 - p)
QFinalPassed == y2 > 0 /\ y2 + n2 + a2 + v2 >= Needed(T, q) /\ y2 >= Needed(y2 + n2 + v2, p)
QuorumSoundPass == QPassedOpen => QFinalPassed
QuorumSoundReject == QRejectedOpen => ~QFinalPassed
QuorumExclusive == ~(QPassedOpen /\ QRejectedOpen)
\* absolute percentage
PPassedOpen == y > 0 /\ y >= Needed(T - a, p)
PRejectedOpen == n > Needed(T - a, P9 - p)
PFinalPassed == y2 > 0 /\ y2 >= Needed(T - a2, p)
PctSoundPass == PPassedOpen => PFinalPassed
PctSoundReject == PRejectedOpen => ~PFinalPassed
PctExclusive == ~(PPassedOpen /\ PRejectedOpen)
\* absolute count
CPassedOpen == y > 0 /\ y >= cw
CRejectedOpen == n > T - cw
CFinalPassed == y2 > 0 /\ y2 >= cw
CountSoundPass == CPassedOpen => CFinalPassed
CountSoundReject == CRejectedOpen => ~CFinalPassed
CountExclusive == ~(CPassedOpen /\ CRejectedOpen)
\* sanity (must be REFUTED): rounding down instead of up, and an early reject with >= instead of >
WrongRoundsDown == Impl9(w, q) = (w * q) \div P9
WrongRejectGeq == (n >= Needed(T - a, P9 - p)) => ~QFinalPassed
=============================================================================
