--------------------------- MODULE Cw3Threshold ---------------------------
(***************************************************************************)
(* packages/cw3/src/proposal.rs: votes_needed, is_passed, is_rejected,     *)
(* current_status — transcribed next to the documented rules in exact      *)
(* arithmetic (property C04; also used by Cw3.tla for C03).                *)
(*                                                                         *)
(* Percentages are integers in units of 1/PDEN.  PREC plays the role of    *)
(* PRECISION_FACTOR (10^9 in the code, where PDEN = 10^18).                *)
(* A threshold is a record                                                 *)
(*   [kind |-> "count",  weight |-> n,  p |-> 0, q |-> 0]                  *)
(*   [kind |-> "pct",    weight |-> 0,  p |-> .., q |-> 0]                 *)
(*   [kind |-> "quorum", weight |-> 0,  p |-> .., q |-> ..]                *)
(* A tally is [yes, no, abstain, veto].                                    *)
(***************************************************************************)
EXTENDS Integers

CONSTANTS PDEN, PREC

CeilDiv(a, b) == (a + b - 1) \div b
\* votes_needed: Uint128(PREC * weight).mul_floor(pct), then divide by PREC rounding up
ImplNeeded(w, p) == CeilDiv((PREC * w * p) \div PDEN, PREC)
\* the documented requirement: weight * percentage, rounded up, in exact arithmetic
ExactNeeded(w, p) == CeilDiv(w * p, PDEN)

Total(v) == v.yes + v.no + v.abstain + v.veto

\* ---- the code.  needYes = TRUE is the code with the zero-yes guard (fix D1), FALSE the code before it
ImplPassed(thr, T, v, expired, needYes) ==
  /\ (needYes => v.yes > 0)
  /\ IF thr.kind = "count" THEN v.yes >= thr.weight
     ELSE IF thr.kind = "pct" THEN v.yes >= ImplNeeded(T - v.abstain, thr.p)
     ELSE /\ Total(v) >= ImplNeeded(T, thr.q)
          /\ IF expired THEN v.yes >= ImplNeeded(Total(v) - v.abstain, thr.p)
                        ELSE v.yes >= ImplNeeded(T - v.abstain, thr.p)
ImplRejected(thr, T, v, expired) ==
  IF thr.kind = "count" THEN v.no > T - thr.weight
  ELSE IF thr.kind = "pct" THEN v.no > ImplNeeded(T - v.abstain, PDEN - thr.p)
  ELSE IF expired THEN v.no > ImplNeeded(Total(v) - v.abstain, PDEN - thr.p)
                  ELSE v.no > ImplNeeded(T - v.abstain, PDEN - thr.p)
\* current_status of a proposal stored as Open
ImplStatus(thr, T, v, expired, needYes) ==
  IF ImplPassed(thr, T, v, expired, needYes) THEN "passed"
  ELSE IF ImplRejected(thr, T, v, expired) \/ expired THEN "rejected" ELSE "open"

\* ---- the documented rule, evaluated once voting is over (exact arithmetic, Yes weight rounded up)
DocPassedAtEnd(thr, T, v) ==
  /\ v.yes > 0
  /\ IF thr.kind = "count" THEN v.yes >= thr.weight
     ELSE IF thr.kind = "pct" THEN v.yes >= ExactNeeded(T - v.abstain, thr.p)
     ELSE /\ Total(v) >= ExactNeeded(T, thr.q)
          /\ v.yes >= ExactNeeded(Total(v) - v.abstain, thr.p)

\* all ways the outstanding weight can still be cast (or not cast at all)
Completions(T, v) ==
  LET r == T - Total(v) IN
  { [yes |-> v.yes + t[1], no |-> v.no + t[2], abstain |-> v.abstain + t[3], veto |-> v.veto + t[4]] :
      t \in { u \in (0..r) \X (0..r) \X (0..r) \X (0..r) : u[1] + u[2] + u[3] + u[4] <= r } }
PassCertain(thr, T, v) == \A c \in Completions(T, v) : DocPassedAtEnd(thr, T, c)
CannotPass(thr, T, v)  == \A c \in Completions(T, v) : ~DocPassedAtEnd(thr, T, c)

\* ---- closed forms of the two quantified notions (used on traces, where enumerating completions is
\* too expensive); Cw3ThresholdMC checks that they coincide with the quantified definitions
RulePassed(thr, T, v, expired) ==
  /\ v.yes > 0
  /\ IF thr.kind = "count" THEN v.yes >= thr.weight
     ELSE IF thr.kind = "pct" THEN v.yes >= ExactNeeded(T - v.abstain, thr.p)
     ELSE /\ Total(v) >= ExactNeeded(T, thr.q)
          /\ IF expired THEN v.yes >= ExactNeeded(Total(v) - v.abstain, thr.p)
                        ELSE v.yes >= ExactNeeded(T - v.abstain, thr.p)
\* the best case for passing is that all outstanding weight votes yes
RuleCanPass(thr, T, v) == DocPassedAtEnd(thr, T, [v EXCEPT !.yes = @ + (T - Total(v))])

\* the outcome the rules define for a tally (C03 uses this with the ballots a proposal reports)
Outcome(thr, T, v, expired) ==
  IF expired THEN (IF DocPassedAtEnd(thr, T, v) THEN "passed" ELSE "rejected")
  ELSE IF PassCertain(thr, T, v) THEN "passed"
  ELSE IF CannotPass(thr, T, v) THEN "rejected_or_open" ELSE "open"
=============================================================================
