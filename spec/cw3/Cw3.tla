-------------------------------- MODULE Cw3 --------------------------------
(***************************************************************************)
(* cw3-fixed-multisig and cw3-flex-multisig (the flavour is part of the    *)
(* configuration), the cw4-group behind the flex flavour and the deposit   *)
(* token: abstract state, and the formulas of properties C03 C05 C06 C15.  *)
(*                                                                         *)
(* Used by Cw3MC (reference machine: model checking, schedule generation)  *)
(* and by Cw3Trace (replay of executions of the real contracts); both      *)
(* check the same formulas.  ev' is the call being taken.                  *)
(***************************************************************************)
EXTENDS Cw3Threshold, Sequences, FiniteSets, TLC

CONSTANTS Addr,         \* model addresses that may be voters / members
          KnownD3,      \* TRUE: known finding D3 (same-block group change at propose) is exempted
          KnownD6,      \* TRUE: known finding D6 (stored-Rejected proposal cannot be closed) is exempted
          Announce      \* TRUE (trace validation): every use of an exemption is printed

VARIABLES
  cfg,          \* [flavour, thr, period, executor, dep]
  props,        \* sequence of proposals as the queries report them, index = id
  voters,       \* [Addr -> Int] current weight (fixed: voter table, flex: group), -1 = not a member
  gtotal,       \* total weight the contract / group reports now
  startVoters,  \* membership at the start of the current block
  dirty,        \* the membership changed since the start of the current block
  bal,          \* [Addr \cup {"ms"} -> Nat] balances of the deposit token
  qx,           \* further observations: [thrq, lvoters, voteq] (Threshold{}, ListVoters{}, Vote{}) and dtokfail,
                \* the failure switch of the cw20 deposit token (fault injection: refunds fail while it is on)
  now, out,
  \* histories, one entry per proposal
  snap,         \* membership snapshot the proposal was opened against
  execd,        \* number of successful Execute calls
  closedH,      \* a Close call succeeded
  held,         \* 1 while the multisig holds the proposal's deposit
  rejEarly,     \* the proposal was reported Rejected before its expiry, or at its creation
  sameBlk,      \* the group changed earlier in the proposal's own block (flex)
  ev

hvars == <<snap, execd, closedH, held, rejEarly, sameBlk>>
svars == <<cfg, props, voters, gtotal, startVoters, dirty, bal, qx, now, out>>
vars == <<cfg, props, voters, gtotal, startVoters, dirty, bal, qx, now, out, snap, execd, closedH, held, rejEarly, sameBlk, ev>>

Expired(e, t) == IF e.k = "h" THEN t.h >= e.v ELSE IF e.k = "t" THEN t.t >= e.v ELSE FALSE

NoBallot == [vote |-> "none", w |-> 0]
NoDep == [kind |-> "none", amt |-> 0, refund |-> FALSE]

RECURSIVE SumF(_, _)
SumF(S, f) == IF S = {} THEN 0 ELSE LET x == CHOOSE y \in S : TRUE IN f[x] + SumF(S \ {x}, f)
SumW(m) == SumF(Addr, [a \in Addr |-> IF m[a] > 0 THEN m[a] ELSE 0])

Tally(p) ==
  LET W(kind) == SumF(Addr, [a \in Addr |-> IF p.ballots[a].vote = kind THEN p.ballots[a].w ELSE 0]) IN
  [yes |-> W("yes"), no |-> W("no"), abstain |-> W("abstain"), veto |-> W("veto")]

Ids == 1..Len(props)
Move(b, from, to, a) == [[b EXCEPT ![from] = @ - a] EXCEPT ![to] = @ + a]

E == ev'
Ok == E.ok
IsOk(a) == E.act = a /\ E.ok
Step == E.act # "reset"
Pid == E.args.id
Has(id) == id \in Ids

PassedNow(p, t) == RulePassed(p.thr, p.total, Tally(p), Expired(p.expires, t))

\* ---- known findings: narrow exemptions, each use is reported
KF3(id) == KnownD3 /\ cfg.flavour = "flex" /\ sameBlk[id]
             /\ (Announce => PrintT("KNOWN-FINDING|C06|D3 flex multisig: Propose in a block in which the group was changed earlier reads total weight and proposer weight live, voters from the start-of-block snapshot"))
KF3q(id) == KnownD3 /\ cfg.flavour = "flex" /\ sameBlk[id]     \* silent form, for consequences on other properties
KF3p(id) == KnownD3 /\ cfg.flavour = "flex" /\ sameBlk'[id]    \* for the Propose step itself
             /\ (Announce => PrintT("KNOWN-FINDING|C06|D3 flex multisig: Propose in a block in which the group was changed earlier reads total weight and proposer weight live, voters from the start-of-block snapshot"))
KF6(id) == KnownD6 /\ rejEarly[id]
             /\ (Announce => PrintT("KNOWN-FINDING|C15|D6 flex multisig: a proposal stored as Rejected (voted down before expiry, or created already expired) can never be closed, its deposit is not recoverable"))

ProposalMsgs(o) == SelectSeq(o, LAMBDA m : m.k = "msg")
DepositMsgs(o) == SelectSeq(o, LAMBDA m : m.k # "msg")

\* ------------------------------------------------------------------ C03
C03_StatusMatches == \A id \in Ids :
  LET p == props[id]  t == Tally(p)  x == Expired(p.expires, now) IN
  \/ KF3q(id)
  \/ /\ p.status \in {"open", "passed", "rejected", "executed"}
     /\ (p.status = "executed") <=> (execd[id] > 0)
     /\ (p.status = "passed") <=> (execd[id] = 0 /\ ~closedH[id] /\ RulePassed(p.thr, p.total, t, x))
     /\ p.status = "rejected" => closedH[id] \/ (x /\ ~RulePassed(p.thr, p.total, t, TRUE)) \/ ~RuleCanPass(p.thr, p.total, t)
     /\ p.status = "open" => ~x /\ ~RulePassed(p.thr, p.total, t, FALSE)
\* every query that reports a proposal reports the same status (and total weight) for it
C03_QueriesAgree == \A id \in Ids :
  LET p == props[id] IN p.lstatus = p.status /\ p.rstatus = p.status /\ p.ltotal = p.total /\ p.rtotal = p.total
C03_PassedHasYes == \A id \in Ids :
  props[id].status \in {"passed", "executed"} => Tally(props[id]).yes > 0
C03_ExecuteAdmitted == Step /\ IsOk("execute") =>
  /\ Has(Pid)
  /\ KF3q(Pid) \/ (execd[Pid] = 0 /\ ~closedH[Pid] /\ PassedNow(props[Pid], now'))
\* ... and the status used to admit Execute is that outcome: a proposal whose ballots imply Passed is admitted
\* (authorised caller; messages that cannot fail when dispatched - a failed dispatch legitimately fails the call)
Harmless(ms) == \A i \in 1..Len(ms) : ms[i].k = "msg" /\ ms[i].harmless
ExecAuthorised(by) == \/ cfg.executor = "none"
                      \/ cfg.executor = "member" /\ by \in Addr /\ voters[by] >= 0
                      \/ cfg.executor = by
C03_ExecuteMustBeAdmitted == Step /\ E.act = "execute" /\ Has(Pid) =>
  LET p == props[Pid] IN
  (execd[Pid] = 0 /\ ~closedH[Pid] /\ PassedNow(p, now') /\ ExecAuthorised(E.by) /\ Harmless(p.msgs)
     /\ ~(p.dep.kind = "cw20" /\ qx.dtokfail) /\ (p.dep.kind = "native" => bal["ms"] >= p.dep.amt)) => Ok \/ KF3q(Pid)
C03_CloseAdmitted == Step /\ IsOk("close") =>
  /\ Has(Pid)
  /\ KF3q(Pid) \/ (execd[Pid] = 0 /\ Expired(props[Pid].expires, now') /\ ~PassedNow(props[Pid], now'))

\* ------------------------------------------------------------------ C05
C05_AtMostOnce == \A id \in Ids : execd[id] <= 1
\* a proposal's messages leave the multisig only in a successful Execute of that proposal,
\* exactly as proposed, in order
C05_DispatchExact == Step =>
  IF IsOk("execute") THEN Has(Pid) /\ ProposalMsgs(out') = props[Pid].msgs
  ELSE ProposalMsgs(out') = <<>>
C05_ExecutorRule == Step /\ IsOk("execute") =>
  \/ cfg.executor = "none"
  \/ cfg.executor = "member" /\ E.by \in Addr /\ voters[E.by] >= 0
  \/ cfg.executor = E.by
\* a failing call (failed dispatch, re-entrant call, refused call) changes nothing
C05_FailedKeeps == Step /\ ~Ok => props' = props /\ bal' = bal /\ voters' = voters /\ out' = <<>>
AllowedMoves == {<<"open", "open">>, <<"open", "passed">>, <<"open", "rejected">>, <<"passed", "passed">>,
                 <<"passed", "executed">>, <<"rejected", "rejected">>, <<"executed", "executed">>}
C05_StatusMonotone == Step => \A id \in Ids : KF3q(id) \/ <<props[id].status, props'[id].status>> \in AllowedMoves
C05_IdsIncrease == Step =>
  /\ Len(props') = Len(props) + (IF IsOk("propose") THEN 1 ELSE 0)
  /\ \A i \in 1..Len(props') : props'[i].id = i
C05_Immutable == Step => \A id \in Ids :
  LET p == props[id]  q == props'[id] IN
  KF3q(id) \/ (q.title = p.title /\ q.msgs = p.msgs /\ q.thr = p.thr /\ q.total = p.total /\ q.expires = p.expires
                /\ q.proposer = p.proposer /\ q.dep = p.dep /\ q.ltotal = p.ltotal /\ q.rtotal = p.rtotal)
MaxExpiry(t) == IF cfg.period.k = "h" THEN [k |-> "h", v |-> t.h + cfg.period.v] ELSE [k |-> "t", v |-> t.t + cfg.period.v]
C05_ExpiryBounded == Step /\ IsOk("propose") =>
  LET q == props'[Len(props')]  mx == MaxExpiry(now')  lt == E.args.latest IN
  /\ lt.k \in {"none", "never", mx.k}
  /\ q.expires = IF lt.k = mx.k /\ lt.v < mx.v THEN lt ELSE mx
  /\ q.msgs = E.args.msgs /\ q.title = E.args.title /\ q.proposer = E.by /\ q.thr = cfg.thr
C05_CloseOnlyExpiredFailed == Step /\ IsOk("close") =>
  /\ Has(Pid) /\ ProposalMsgs(out') = <<>>
  /\ KF3q(Pid) \/ (Expired(props[Pid].expires, now') /\ ~PassedNow(props[Pid], now'))
C05_VoteEmitsNothing == Step /\ IsOk("vote") => out' = <<>>

\* ------------------------------------------------------------------ C06
C06_OneBallot == Step => \A id \in Ids : \A a \in Addr :
  LET b == props[id].ballots[a]  c == props'[id].ballots[a] IN
  /\ b.vote # "none" => c = b
  /\ (b.vote = "none" /\ c.vote # "none") => IsOk("vote") /\ E.by = a /\ Pid = id
C06_VoteWindow == Step /\ IsOk("vote") =>
  Has(Pid) /\ ~Expired(props[Pid].expires, now') /\ execd[Pid] = 0
C06_BallotWeight == Step /\ IsOk("vote") =>
  /\ Has(Pid) /\ E.by \in Addr
  /\ props'[Pid].ballots[E.by] = [vote |-> E.args.vote, w |-> snap[Pid][E.by]]
  /\ snap[Pid][E.by] >= 1
C06_ProposerBallot == Step /\ IsOk("propose") =>
  LET id == Len(props')  q == props'[id] IN
  /\ E.by \in Addr
  /\ \A a \in Addr \ {E.by} : q.ballots[a] = NoBallot
  /\ (snap'[id][E.by] >= 0 /\ q.ballots[E.by] = [vote |-> "yes", w |-> snap'[id][E.by]]) \/ KF3p(id)
C06_TotalIsSnapshotSum == \A id \in Ids :
  LET p == props[id]  t == Tally(p) IN
  (p.total = SumW(snap[id]) /\ Total(t) <= p.total) \/ KF3(id)
\* what the group itself reports for the proposal's start height is the snapshot the spec inferred
C06_SnapshotAsObserved == \A id \in Ids : props[id].osnap = snap[id]
C06_LaterChangesIrrelevant == Step /\ E.act = "group_update" => props' = props
\* the fixed voter table is what instantiate was given, and the declared total is its sum
C06_TableTotal == cfg.flavour = "fixed" => gtotal = SumW(voters)
C06_FixedTableStatic == Step /\ cfg.flavour = "fixed" => voters' = voters /\ gtotal' = gtotal

\* ------------------------------------------------------------------ C15
\* proposal messages may spend the deposit denomination out of the multisig's pool (record field amt; 0 for all others)
RECURSIVE DrainOf(_)
DrainOf(ms) == IF ms = <<>> THEN 0 ELSE (IF Head(ms).k = "msg" THEN Head(ms).amt ELSE 0) + DrainOf(Tail(ms))
Spend(b, x) == [b EXCEPT !["ms"] = @ - x]
\* the multisig can pay the refund of p (it always can unless executed proposals spent the pool)
CanRefund(p) == p.dep.kind = "native" => bal["ms"] >= p.dep.amt
TakeMsg(from, amt) == [k |-> "take", tag |-> "", a |-> from, b |-> "ms", amt |-> amt, harmless |-> TRUE]
RefundMsg(to, amt) == [k |-> "refund", tag |-> "", a |-> to, b |-> "", amt |-> amt, harmless |-> TRUE]
C15_ProposeTakes == Step /\ IsOk("propose") =>
  LET q == props'[Len(props')]  d == cfg.dep IN
  /\ q.dep = d
  /\ IF d.kind = "none" THEN bal' = bal /\ DepositMsgs(out') = <<>>
     ELSE /\ bal[E.by] >= d.amt /\ bal' = Move(bal, E.by, "ms", d.amt)
          /\ IF d.kind = "native" THEN E.args.funds = d.amt /\ E.args.fdenom = "udep" /\ DepositMsgs(out') = <<>>
                                        /\ ("extra" \in DOMAIN E.args => E.args.extra = 0)      \* exactly the deposit, nothing else attached
             ELSE DepositMsgs(out') = <<TakeMsg(E.by, d.amt)>>
C15_RefundOnExecute == Step /\ IsOk("execute") =>
  /\ Has(Pid)
  /\ LET p == props[Pid] IN
     IF p.dep.kind = "none" THEN bal' = Spend(bal, DrainOf(p.msgs)) /\ DepositMsgs(out') = <<>>
     ELSE /\ held[Pid] = 1
          /\ bal' = Spend(Move(bal, "ms", p.proposer, p.dep.amt), DrainOf(p.msgs))
          /\ DepositMsgs(out') = <<RefundMsg(p.proposer, p.dep.amt)>>
C15_RefundOnClose == Step /\ IsOk("close") =>
  /\ Has(Pid)
  /\ LET p == props[Pid] IN
     IF p.dep.kind # "none" /\ p.dep.refund
     THEN /\ held[Pid] = 1
          /\ ~PassedNow(p, now') \/ KF3q(Pid)         \* returned as "failed" only if the proposal did fail
          /\ bal' = Move(bal, "ms", p.proposer, p.dep.amt)
          /\ DepositMsgs(out') = <<RefundMsg(p.proposer, p.dep.amt)>>
     ELSE bal' = bal /\ DepositMsgs(out') = <<>>
C15_NoOtherMoves == Step /\ ~(Ok /\ E.act \in {"propose", "execute", "close"}) => bal' = bal /\ DepositMsgs(out') = <<>>
\* the multisig holds exactly the deposits not yet returned
C15_PoolIsHeld == bal["ms"] = SumF(Ids, [id \in Ids |-> held[id] * props[id].dep.amt]) - SumF(Ids, [id \in Ids |-> execd[id] * DrainOf(props[id].msgs)])
\* a failed proposal's deposit is actually recoverable: Close on it must succeed
Recoverable(id, t) ==
  LET p == props[id] IN
  /\ p.dep.kind # "none" /\ p.dep.refund /\ held[id] = 1 /\ execd[id] = 0 /\ ~closedH[id]
  /\ Expired(p.expires, t) /\ ~PassedNow(p, t)
C15_CloseMustSucceed == Step /\ E.act = "close" /\ Has(Pid) /\ Recoverable(Pid, now') /\ CanRefund(props[Pid])
                          /\ ~(props[Pid].dep.kind = "cw20" /\ qx.dtokfail) => Ok \/ KF3q(Pid) \/ KF6(Pid)
\* ------------------------------------------------------------------ beyond the listed properties
\* Threshold{} reports the configured rule with the current total; ListVoters{} lists exactly the current
\* members; Vote{id, voter} reports exactly the ballots ListVotes{} reports
\* MemberChangedHook sent to the multisig by anybody but its group is refused (and, like every refused call, changes nothing)
X3_HookCallRefused == Step /\ E.act = "hook" => ~Ok /\ props' = props /\ voters' = voters /\ gtotal' = gtotal /\ bal' = bal
X3_ThresholdQuery == cfg.flavour \in {"fixed", "flex"} /\ qx.thrq.kind # "none" =>
  qx.thrq = [kind |-> cfg.thr.kind, weight |-> cfg.thr.weight, p |-> cfg.thr.p, q |-> cfg.thr.q, total |-> gtotal]
X3_ListVoters == qx.thrq.kind # "none" => qx.lvoters = {[a |-> a, w |-> voters[a]] : a \in {x \in Addr : voters[x] >= 0}}
X3_VoteQuery == qx.voteq = {[id |-> id, voter |-> a, vote |-> props[id].ballots[a].vote, w |-> props[id].ballots[a].w] :
                              <<id, a>> \in {pr \in Ids \X Addr : props[pr[1]].ballots[pr[2]].vote # "none"}}
=============================================================================
