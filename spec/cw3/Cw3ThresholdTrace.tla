------------------------ MODULE Cw3ThresholdTrace ------------------------
(***************************************************************************)
(* C04, implementation -> specification.  Each recorded event is one call  *)
(* of the real cw3::Proposal::{is_passed, is_rejected, current_status}:    *)
(*   "case"    - complete small domain (percentages in permille), checked  *)
(*               against the documented rule with explicit quantification  *)
(*               over all completions of the outstanding votes;            *)
(*   "bigcase" - u64 magnitudes, operands logged as base-10000 limbs,      *)
(*               checked with BigNat against the closed forms in exact     *)
(*               arithmetic (Decimal atomics, PDEN = 10^18).               *)
(***************************************************************************)
EXTENDS Cw3Threshold, BigNat, Json, IOUtils, TLC

Rec == ndJsonDeserialize(IOEnv.TRACE)

VARIABLES l, ev
tv == <<l, ev>>

TInit == l = 0 /\ ev = [act |-> "init", ok |-> TRUE, anom |-> <<>>]
TNext == l < Len(Rec) /\ l' = l + 1 /\ ev' = Rec[l + 1]
TSpec == TInit /\ [][TNext]_tv

NoAnomaly == ev.anom = <<>>
TraceAlias == [l |-> l, act |-> ev.act]

Small == ev.act = "case"
Big == ev.act = "bigcase"

\* ------------------------------------------------------------ small domain
InDomainS == Total(ev.v) <= ev.T /\ (ev.thr.kind = "count" => ev.thr.weight <= ev.T)
C04_NoPanic == (Small /\ InDomainS) => ~ev.panic
SmallOK == Small /\ InDomainS /\ ~ev.panic
C04_AfterExpiryExact == SmallOK /\ ev.expired => (ev.passed <=> DocPassedAtEnd(ev.thr, ev.T, ev.v))
C04_EarlyPassExact == SmallOK /\ ~ev.expired => (ev.passed <=> PassCertain(ev.thr, ev.T, ev.v))
C04_EarlyRejectSound == SmallOK /\ ~ev.expired /\ ev.rejected => CannotPass(ev.thr, ev.T, ev.v)
C04_AfterExpiryRejectSound == SmallOK /\ ev.expired /\ ev.rejected => ~DocPassedAtEnd(ev.thr, ev.T, ev.v)
C04_NeverPassedWithoutYes ==
  /\ SmallOK /\ ev.passed => ev.v.yes > 0
  /\ Big /\ ~ev.panic /\ ev.passed => ~IsZero(ev.v.yes)
C04_NotBoth == (Small \/ Big) /\ ~ev.panic => ~(ev.passed /\ ev.rejected)
\* current_status of an open proposal is the decision just computed
C04_StatusConsistent == (Small \/ Big) /\ ~ev.panic =>
  ev.status = IF ev.passed THEN "passed" ELSE IF ev.rejected \/ ev.expired THEN "rejected" ELSE "open"

\* ------------------------------------------------------------ u64 magnitudes
P18 == <<0, 0, 0, 0, 100>>          \* 10^18 in limbs
BTotal(v) == Add(Add(v.yes, v.no), Add(v.abstain, v.veto))
\* y + s >= ceil(w * p / 10^18)   <=>   (y + s) * 10^18 >= w * p
GeNeeded(y, w, p, s) == Geq(Mul(IF s = 0 THEN y ELSE Succ(y), P18), Mul(w, p))
\* n + s > ceil(w * p / 10^18)    <=>   n + s >= 1 /\ (n + s - 1) * 10^18 >= w * p
GtNeeded(n, w, p, s) == LET m == IF s = 0 THEN n ELSE Succ(n) IN ~IsZero(m) /\ Geq(Mul(Pred(m), P18), Mul(w, p))

BPassed(e, s) ==
  LET v == e.v  thr == e.thr  T == e.T  tot == BTotal(e.v) IN
  /\ ~IsZero(v.yes)
  /\ IF thr.kind = "count" THEN Geq(v.yes, thr.weight)
     ELSE IF thr.kind = "pct" THEN GeNeeded(v.yes, Sub(T, v.abstain), thr.p, s)
     ELSE /\ GeNeeded(tot, T, thr.q, s)
          /\ IF e.expired THEN GeNeeded(v.yes, Sub(tot, v.abstain), thr.p, s)
                          ELSE GeNeeded(v.yes, Sub(T, v.abstain), thr.p, s)
BRejected(e, s) ==
  LET v == e.v  thr == e.thr  T == e.T  tot == BTotal(e.v) IN
  IF thr.kind = "count" THEN Gt(v.no, Sub(T, thr.weight))
  ELSE IF thr.kind = "pct" THEN GtNeeded(v.no, Sub(T, v.abstain), Sub(P18, thr.p), s)
  ELSE IF e.expired THEN GtNeeded(v.no, Sub(tot, v.abstain), Sub(P18, thr.p), s)
                    ELSE GtNeeded(v.no, Sub(T, v.abstain), Sub(P18, thr.p), s)

InDomainB == Geq(ev.T, BTotal(ev.v)) /\ (ev.thr.kind = "count" => Geq(ev.T, ev.thr.weight))
BigOK == Big /\ InDomainB /\ ~ev.panic
C04_BigNoPanic == (Big /\ InDomainB) => ~ev.panic
\* up to 9 decimal places: exact
C04_BigExact == BigOK /\ (ev.dec9 \/ ev.thr.kind = "count") =>
  /\ ev.passed = BPassed(ev, 0)
  /\ ev.rejected = BRejected(ev, 0)
\* up to 18 decimal places: within one vote, and never stricter than the exact rule
C04_BigWithinOne == BigOK /\ ~ev.dec9 =>
  /\ BPassed(ev, 0) => ev.passed
  /\ ev.passed => BPassed(ev, 1)
  /\ BRejected(ev, 0) => ev.rejected
  /\ ev.rejected => BRejected(ev, 1)

Accepted ==
  \/ TLCGet("stats").diameter = Len(Rec) + 1
  \/ PrintT(<<"TRACE_NOT_CONSUMED", TLCGet("stats").diameter, Len(Rec)>>) /\ FALSE
=============================================================================
