------------------------------- MODULE Cw3MC -------------------------------
(***************************************************************************)
(* Reference machine of the two multisigs for TLC.  It does what the code  *)
(* does, entry point by entry point, including the stored status that the  *)
(* queries refine with the current tally and clock, the live reads of the  *)
(* flex Propose (known finding D3) and the Close rule on the stored status *)
(* (known finding D6).  MC mode: exhaustive check of the formulas of Cw3.  *)
(* Gen mode: behaviours are printed as schedules for the harness; failing  *)
(* calls are part of the alphabet.                                         *)
(***************************************************************************)
EXTENDS Cw3, Json, SequencesExt

CONSTANTS
  Flavour,      \* "fixed" | "flex"
  Thr,          \* threshold record
  Period,       \* [k, v]
  Executor,     \* "none" | "member" | an address
  Dep,          \* deposit record
  InitVoters,   \* set of initial memberships [Addr -> Int]
  MaxProps, MaxH, MaxUpd,
  Kinds,        \* proposal message kinds
  Latests,      \* `latest` arguments tried by Propose
  Weights,      \* weights used by group updates (-1 = remove)
  GenMode, GenDepth, GenFail, SampleK

VARIABLES stored, upd, sched, cfgv

mcvars == <<vars, stored, upd, sched, cfgv>>
View == <<svars, hvars, stored, upd, IF GenMode /\ GenFail THEN Len(sched) ELSE 0>>
\* transition cover: one BFS path per distinct (state, call that led to it), so that calls which lead to an
\* already known state (no-op calls, self-transfers, alternative ways into a state) get a schedule too
ViewEv == <<View, ev>>

Users == Addr
\* ("drain": the members spend one deposit's worth of the deposit denomination out of the multisig's pool)
MsgOf(kind) == IF kind = "none" THEN <<>>
               ELSE <<[k |-> "msg", tag |-> kind, a |-> "", b |-> "", amt |-> IF kind = "drain" THEN Dep.amt ELSE 0,
                       harmless |-> kind \in {"sink", "sink2", "bank"}]>>
FailingKind(kind) == kind \in {"bankbig", "reexec", "reclose", "revote"}   \* dispatch of these always fails

\* what the queries report for a stored proposal (Proposal::current_status)
Report(st, p, t) ==
  IF st # "open" THEN st
  ELSE LET x == Expired(p.expires, t)  v == Tally(p) IN
       IF ImplPassed(p.thr, p.total, v, x, TRUE) THEN "passed"
       ELSE IF ImplRejected(p.thr, p.total, v, x) \/ x THEN "rejected" ELSE "open"
SetStatus(p, st) == [p EXCEPT !.status = st, !.lstatus = st, !.rstatus = st]
Refresh(ps, sts, t) == [i \in 1..Len(ps) |-> SetStatus(ps[i], Report(sts[i], ps[i], t))]

Init ==
  \E m \in InitVoters :
    /\ cfg = [flavour |-> Flavour, thr |-> Thr, period |-> Period, executor |-> Executor, dep |-> Dep]
    /\ props = <<>> /\ stored = <<>>
    /\ voters = m /\ gtotal = SumW(m) /\ startVoters = m /\ dirty = FALSE
    /\ bal = [a \in Addr \cup {"ms"} |-> IF a = "ms" THEN 0 ELSE 2]
    /\ qx = [thrq |-> [kind |-> "none", weight |-> 0, p |-> 0, q |-> 0, total |-> 0], lvoters |-> {}, voteq |-> {}, dtokfail |-> FALSE]
    /\ now = [h |-> 0, t |-> 0] /\ out = <<>>
    /\ snap = <<>> /\ execd = <<>> /\ closedH = <<>> /\ held = <<>> /\ rejEarly = <<>> /\ sameBlk = <<>>
    /\ upd = 0
    /\ ev = [act |-> "reset", by |-> "env", ok |-> TRUE]
    /\ sched = <<>>
    /\ \A i \in 1..20 : TLCSet(100 + i, 0)
    /\ cfgv = [preapprove |-> TRUE, hooked |-> (Flavour = "flex"), flavour |-> Flavour, thr |-> Thr, period |-> Period, executor |-> Executor, dep |-> Dep,
               voters |-> SetToSeq({[a |-> x, w |-> m[x]] : x \in {y \in Addr : m[y] >= 0}})]

Ev(a, by, args) == [act |-> a, by |-> by, args |-> args, ok |-> TRUE]
Ready == ~(GenMode /\ Len(sched) >= GenDepth)

\* histories that every step maintains the same way
RejEarlyNext(ps, t, born) ==
  [id \in 1..Len(ps) |-> (IF id <= Len(rejEarly) THEN rejEarly[id] ELSE FALSE)
                          \/ (ps[id].status = "rejected" /\ ~Expired(ps[id].expires, t))
                          \/ (born /\ id = Len(ps) /\ ps[id].status = "rejected")]

\* ------------------------------------------------------------------ entry points (success case)
ExpiryFor(lt) == LET mx == MaxExpiry(now) IN IF lt.k = mx.k /\ lt.v < mx.v THEN lt ELSE mx

DoPropose(by, kind, lt) ==
  LET w == voters[by]
      id == Len(props) + 1
      p0 == [id |-> id, status |-> "open", lstatus |-> "open", rstatus |-> "open", expires |-> ExpiryFor(lt), thr |-> Thr,
             total |-> IF Flavour = "flex" THEN SumW(voters) ELSE gtotal,
             ltotal |-> IF Flavour = "flex" THEN SumW(voters) ELSE gtotal, rtotal |-> IF Flavour = "flex" THEN SumW(voters) ELSE gtotal,
             proposer |-> by, msgs |-> MsgOf(kind), title |-> "t", dep |-> Dep,
             ballots |-> [a \in Addr |-> IF a = by THEN [vote |-> "yes", w |-> w] ELSE NoBallot],
             nvotes |-> 1,
             osnap |-> IF Flavour = "flex" THEN startVoters ELSE voters]
      st == Report("open", p0, now)
      ps == Append(props, SetStatus(p0, st))
  IN
  /\ Len(props) < MaxProps
  /\ w >= 0                                            \* any member, also with weight 0
  /\ lt.k \in {"none", "never", Period.k}
  /\ Dep.kind # "none" => bal[by] >= Dep.amt
  /\ props' = ps /\ stored' = Append(stored, st)
  /\ bal' = IF Dep.kind = "none" THEN bal ELSE Move(bal, by, "ms", Dep.amt)
  /\ out' = IF Dep.kind = "cw20" THEN <<TakeMsg(by, Dep.amt)>> ELSE <<>>
  /\ snap' = Append(snap, IF Flavour = "flex" THEN startVoters ELSE voters)
  /\ execd' = Append(execd, 0) /\ closedH' = Append(closedH, FALSE)
  /\ held' = Append(held, IF Dep.kind = "none" THEN 0 ELSE 1)
  /\ sameBlk' = Append(sameBlk, Flavour = "flex" /\ dirty)
  /\ rejEarly' = RejEarlyNext(ps, now, TRUE)
  /\ UNCHANGED <<voters, gtotal, startVoters, dirty, now, upd>>

DoVote(by, id, vote) ==
  /\ id \in Ids
  /\ stored[id] \in {"open", "passed", "rejected"}
  /\ ~Expired(props[id].expires, now)
  /\ snap[id][by] >= 1
  /\ props[id].ballots[by].vote = "none"
  /\ LET p1 == [props[id] EXCEPT !.ballots[by] = [vote |-> vote, w |-> snap[id][by]], !.nvotes = @ + 1]
         st == Report(stored[id], p1, now)
         ps == [props EXCEPT ![id] = SetStatus(p1, st)]
     IN /\ props' = ps /\ stored' = [stored EXCEPT ![id] = st]
        /\ rejEarly' = RejEarlyNext(ps, now, FALSE)
  /\ out' = <<>>
  /\ UNCHANGED <<voters, gtotal, startVoters, dirty, bal, now, snap, execd, closedH, held, sameBlk, upd>>

Authorised(by) == \/ Executor = "none"
                  \/ Executor = "member" /\ voters[by] >= 0
                  \/ Executor = by

DoExecute(by, id) ==
  /\ id \in Ids
  /\ Report(stored[id], props[id], now) = "passed"
  /\ Authorised(by)
  /\ ~FailingKind(IF props[id].msgs = <<>> THEN "none" ELSE props[id].msgs[1].tag)
  /\ LET ps == [props EXCEPT ![id] = SetStatus(@, "executed")] IN
     /\ props' = ps /\ stored' = [stored EXCEPT ![id] = "executed"]
     /\ rejEarly' = RejEarlyNext(ps, now, FALSE)
  /\ execd' = [execd EXCEPT ![id] = @ + 1]
  \* the messages are dispatched first, then the refund: the bank refuses what the multisig does not hold
  /\ bal["ms"] >= DrainOf(props[id].msgs) + (IF props[id].dep.kind = "none" THEN 0 ELSE props[id].dep.amt)
  /\ IF props[id].dep.kind = "none"
     THEN bal' = Spend(bal, DrainOf(props[id].msgs)) /\ out' = props[id].msgs /\ held' = held
     ELSE /\ bal' = Spend(Move(bal, "ms", props[id].proposer, props[id].dep.amt), DrainOf(props[id].msgs))
          /\ out' = <<RefundMsg(props[id].proposer, props[id].dep.amt)>> \o props[id].msgs
          /\ held' = [held EXCEPT ![id] = 0]
  /\ UNCHANGED <<voters, gtotal, startVoters, dirty, now, snap, closedH, sameBlk, upd>>

DoClose(by, id) ==
  /\ id \in Ids
  /\ stored[id] = "open"                                            \* D6: a stored Rejected is refused
  /\ Report(stored[id], props[id], now) # "passed"
  /\ Expired(props[id].expires, now)
  /\ LET ps == [props EXCEPT ![id] = SetStatus(@, "rejected")] IN
     /\ props' = ps /\ stored' = [stored EXCEPT ![id] = "rejected"]
     /\ rejEarly' = RejEarlyNext(ps, now, FALSE)
  /\ closedH' = [closedH EXCEPT ![id] = TRUE]
  /\ (props[id].dep.kind # "none" /\ props[id].dep.refund) => bal["ms"] >= props[id].dep.amt
  /\ IF props[id].dep.kind # "none" /\ props[id].dep.refund
     THEN /\ bal' = Move(bal, "ms", props[id].proposer, props[id].dep.amt)
          /\ out' = <<RefundMsg(props[id].proposer, props[id].dep.amt)>>
          /\ held' = [held EXCEPT ![id] = 0]
     ELSE bal' = bal /\ out' = <<>> /\ held' = held
  /\ UNCHANGED <<voters, gtotal, startVoters, dirty, now, snap, execd, sameBlk, upd>>

DoGroupUpdate(a, w) ==
  /\ Flavour = "flex" /\ upd < MaxUpd
  /\ voters[a] # w
  /\ voters' = [voters EXCEPT ![a] = w]
  /\ gtotal' = SumW(voters')
  /\ dirty' = TRUE /\ upd' = upd + 1
  /\ out' = <<>>
  /\ UNCHANGED <<props, stored, startVoters, bal, now, hvars>>

\* ------------------------------------------------------------------ steps
Call(e, action) ==
  \/ /\ action
     /\ ev' = [e EXCEPT !.ok = TRUE]
     /\ UNCHANGED <<cfg, cfgv, qx>>
     /\ sched' = IF GenMode THEN Append(sched, e) ELSE sched
  \/ /\ GenMode /\ GenFail /\ ~ENABLED action
     /\ ev' = [e EXCEPT !.ok = FALSE]
     /\ UNCHANGED <<svars, hvars, stored, upd, cfgv>>
     /\ sched' = Append(sched, e)

NoneLatest == [k |-> "none", v |-> 0]
APropose == Ready /\ \E by \in Users, kind \in Kinds, lt \in Latests :
  Call(Ev("propose", by, [kind |-> kind, latest |-> lt, funds |-> IF Dep.kind = "native" THEN Dep.amt ELSE 0, fdenom |-> "udep",
                            msgs |-> MsgOf(kind), title |-> "t"]),
       DoPropose(by, kind, lt))
AVote == Ready /\ \E by \in Users, id \in 1..MaxProps, vote \in {"yes", "no", "abstain", "veto"} :
  Call(Ev("vote", by, [id |-> id, vote |-> vote]), DoVote(by, id, vote))
AExecute == Ready /\ \E by \in Users, id \in 1..MaxProps :
  Call(Ev("execute", by, [id |-> id]), DoExecute(by, id))
AClose == Ready /\ \E by \in Users, id \in 1..MaxProps :
  Call(Ev("close", by, [id |-> id]), DoClose(by, id))
AGroupUpdate == Ready /\ \E a \in Users, w \in Weights :
  Call(Ev("group_update", "ga", [add |-> IF w >= 0 THEN <<[a |-> a, w |-> w]>> ELSE <<>>, remove |-> IF w < 0 THEN <<a>> ELSE <<>>]),
       DoGroupUpdate(a, w))
Advance ==
  /\ Ready /\ now.h < MaxH
  /\ now' = [h |-> now.h + 1, t |-> now.t + 10]
  /\ ev' = Ev("advance", "env", [dh |-> 1, dt |-> 10])
  /\ LET ps == Refresh(props, stored, now') IN props' = ps /\ rejEarly' = RejEarlyNext(ps, now', FALSE)
  /\ startVoters' = voters /\ dirty' = FALSE /\ out' = <<>>
  /\ UNCHANGED <<cfg, voters, gtotal, bal, qx, snap, execd, closedH, held, sameBlk, stored, upd, cfgv>>
  /\ sched' = IF GenMode THEN Append(sched, ev') ELSE sched

Next == APropose \/ AVote \/ AExecute \/ AClose \/ AGroupUpdate \/ Advance
Spec == Init /\ [][Next]_mcvars

\* ------------------------------------------------------------------ properties
A_C03 == [][C03_ExecuteAdmitted /\ C03_CloseAdmitted]_vars
A_C05 == [][C05_DispatchExact /\ C05_ExecutorRule /\ C05_FailedKeeps /\ C05_StatusMonotone /\ C05_IdsIncrease /\ C05_Immutable
            /\ C05_ExpiryBounded /\ C05_CloseOnlyExpiredFailed /\ C05_VoteEmitsNothing]_vars
A_C06 == [][C06_OneBallot /\ C06_VoteWindow /\ C06_BallotWeight /\ C06_ProposerBallot /\ C06_LaterChangesIrrelevant /\ C06_FixedTableStatic]_vars
A_C15 == [][C15_ProposeTakes /\ C15_RefundOnExecute /\ C15_RefundOnClose /\ C15_NoOtherMoves]_vars
\* must-succeed, stated on the reference machine with ENABLED (failing calls are not MC steps)
C15_RecoverableMC == \A id \in Ids : Recoverable(id, now) /\ CanRefund(props[id]) => (ENABLED DoClose("a1", id)) \/ KF3q(id) \/ KF6(id)

\* ------------------------------------------------------------------ constants for the .cfg files
ThrCount2 == [kind |-> "count", weight |-> 2, p |-> 0, q |-> 0]
ThrPct51 == [kind |-> "pct", weight |-> 0, p |-> 510, q |-> 0]
ThrPct100 == [kind |-> "pct", weight |-> 0, p |-> 1000, q |-> 0]
ThrQuorum == [kind |-> "quorum", weight |-> 0, p |-> 500, q |-> 334]
ThrQuorum2 == [kind |-> "quorum", weight |-> 0, p |-> 667, q |-> 500]
PeriodH2 == [k |-> "h", v |-> 2]
PeriodT20 == [k |-> "t", v |-> 20]
DepNone == NoDep
DepNative == [kind |-> "native", amt |-> 1, refund |-> TRUE]
DepNativeNoRefund == [kind |-> "native", amt |-> 1, refund |-> FALSE]
DepCw20 == [kind |-> "cw20", amt |-> 1, refund |-> TRUE]
M(x, y, z) == [a \in Addr |-> IF a = "a1" THEN x ELSE IF a = "a2" THEN y ELSE z]
VotersQ == {M(1, 1, 1), M(0, 2, 1), M(2, -1, 1)}
VotersOne == {M(0, 2, 1)}
VotersTwo == {M(1, 1, 1), M(0, 2, 1)}
LatestsOne == {NoneLatest}
LatestsTwo == {NoneLatest, [k |-> "h", v |-> 0]}
VotersAll == [Addr -> {-1, 0, 1, 2}]
LatestsQ == {NoneLatest, [k |-> "h", v |-> 1], [k |-> "h", v |-> 0]}
LatestsT == {NoneLatest, [k |-> "t", v |-> 10], [k |-> "never", v |-> 0], [k |-> "h", v |-> 1]}
WeightsQ == {-1, 0, 2}
KindsGen == {"none", "sink", "sink2", "bank", "bankbig", "flaky", "reexec", "reclose", "revote"}

EmitSchedule ==
  (GenMode /\ Len(sched) = GenDepth) => PrintT(<<"SCHED", ToJson([cfg |-> cfgv, steps |-> sched])>>)
\* corner states whose BFS path is always emitted (once each), whatever the sampling rate
HasVote(p, kind) == \E a \in Addr : p.ballots[a].vote = kind
Goals == <<
  \* a zero-weight proposer whose proposal got only abstentions and has expired
  \E id \in Ids : props[id].ballots[props[id].proposer].w = 0 /\ HasVote(props[id], "abstain") /\ ~HasVote(props[id], "no")
                   /\ ~HasVote(props[id], "veto") /\ Expired(props[id].expires, now),
  \* a proposal that is not passed just before its expiry and passed at it (quorum rule)
  \E id \in Ids : stored[id] = "open" /\ props[id].status = "passed" /\ Expired(props[id].expires, now),
  \* voted down before expiry
  \E id \in Ids : stored[id] = "rejected" /\ ~Expired(props[id].expires, now) /\ ~closedH[id],
  \* created already expired
  \E id \in Ids : Len(rejEarly) >= id /\ rejEarly[id] /\ props[id].nvotes = 1,
  \* executed while still open for votes
  \E id \in Ids : execd[id] = 1 /\ ~Expired(props[id].expires, now),
  \* a veto and a no on the same proposal
  \E id \in Ids : HasVote(props[id], "veto") /\ HasVote(props[id], "no"),
  \* closed with a refund
  \E id \in Ids : closedH[id] /\ held[id] = 0 /\ props[id].dep.kind # "none",
  \* the group changed in the block of a proposal, before and after it
  \E id \in Ids : sameBlk[id],
  \E id \in Ids : dirty /\ ~sameBlk[id] /\ props[id].status = "open",
  \* two proposals alive at once
  Len(props) >= 2 /\ \A id \in Ids : props[id].status = "open"
>>
NewGoal == \E i \in 1..Len(Goals) : Goals[i] /\ TLCGet(100 + i) = 0 /\ TLCSet(100 + i, 1)
\* sampled breadth-first generation: the BFS path of every SampleK-th distinct state of the model,
\* plus the first state found for every goal
EmitSampled ==
  (GenMode /\ ~GenFail /\ Len(sched) > 0) =>
     (IF NewGoal \/ TLCGet("distinct") % SampleK = 0
      THEN PrintT(<<"SCHED", ToJson([cfg |-> cfgv, steps |-> sched])>>) ELSE TRUE)
=============================================================================
