------------------------------ MODULE BigNat ------------------------------
(***************************************************************************)
(* Natural numbers beyond TLC's 32-bit integers: little-endian sequences   *)
(* of base-10000 limbs, normalised (no leading zero limb; zero is <<>>).   *)
(* Used to validate real u64/u128 outputs (C04, C10) inside TLC.           *)
(***************************************************************************)
EXTENDS Integers, Sequences

BASE == 10000

IsBig(a) == /\ \A i \in 1..Len(a) : a[i] \in 0..(BASE - 1)
            /\ Len(a) > 0 => a[Len(a)] # 0

RECURSIVE Norm(_)
Norm(a) == IF Len(a) = 0 THEN a ELSE IF a[Len(a)] = 0 THEN Norm(SubSeq(a, 1, Len(a) - 1)) ELSE a

RECURSIVE FromInt(_)
FromInt(n) == IF n = 0 THEN <<>> ELSE <<n % BASE>> \o FromInt(n \div BASE)

Limb(a, i) == IF i <= Len(a) THEN a[i] ELSE 0
MaxLen(a, b) == IF Len(a) > Len(b) THEN Len(a) ELSE Len(b)

\* comparison: -1, 0, 1  (operands normalised)
RECURSIVE CmpFrom(_, _, _)
CmpFrom(a, b, i) == IF i = 0 THEN 0
                    ELSE IF a[i] < b[i] THEN -1 ELSE IF a[i] > b[i] THEN 1 ELSE CmpFrom(a, b, i - 1)
Cmp(a, b) == IF Len(a) < Len(b) THEN -1 ELSE IF Len(a) > Len(b) THEN 1 ELSE CmpFrom(a, b, Len(a))
Geq(a, b) == Cmp(a, b) >= 0
Gt(a, b) == Cmp(a, b) > 0
IsZero(a) == Len(a) = 0

RECURSIVE AddC(_, _, _, _)
AddC(a, b, i, c) ==
  IF i > MaxLen(a, b) THEN (IF c = 0 THEN <<>> ELSE <<c>>)
  ELSE LET s == Limb(a, i) + Limb(b, i) + c IN <<s % BASE>> \o AddC(a, b, i + 1, s \div BASE)
Add(a, b) == AddC(a, b, 1, 0)

\* a - b for a >= b
RECURSIVE SubC(_, _, _, _)
SubC(a, b, i, c) ==
  IF i > Len(a) THEN <<>>
  ELSE LET d == a[i] - Limb(b, i) - c IN
       IF d < 0 THEN <<d + BASE>> \o SubC(a, b, i + 1, 1) ELSE <<d>> \o SubC(a, b, i + 1, 0)
Sub(a, b) == Norm(SubC(a, b, 1, 0))

\* a * m for a small m in 0..BASE-1
RECURSIVE MulSmallC(_, _, _, _)
MulSmallC(a, m, i, c) ==
  IF i > Len(a) THEN (IF c = 0 THEN <<>> ELSE <<c>>)
  ELSE LET s == a[i] * m + c IN <<s % BASE>> \o MulSmallC(a, m, i + 1, s \div BASE)
MulSmall(a, m) == IF m = 0 THEN <<>> ELSE MulSmallC(a, m, 1, 0)

Shift(a, k) == IF Len(a) = 0 THEN a ELSE [i \in 1..k |-> 0] \o a

RECURSIVE MulFrom(_, _, _)
MulFrom(a, b, j) == IF j > Len(b) THEN <<>>
                    ELSE Add(Shift(MulSmall(a, b[j]), j - 1), MulFrom(a, b, j + 1))
Mul(a, b) == IF Len(a) = 0 \/ Len(b) = 0 THEN <<>> ELSE MulFrom(a, b, 1)

One == <<1>>
\* a - 1 for a > 0
Pred(a) == Sub(a, One)
Succ(a) == Add(a, One)
=============================================================================
