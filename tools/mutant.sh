#!/bin/sh
# tools/mutant.sh <patch> <ID>... : apply a patch to /repo, run the quick checks, restore /repo.
# Prints one line per check: <patch> <ID> exit=<rc> [violated formula]
P=$(realpath "$1"); shift
# /repo is shared with other runners: one patch at a time (the lock is released when the script exits)
exec 9>/tmp/repo.lock
flock 9
export VERIF_LOCK_HELD=1
ROOT=$(cd "$(dirname "$0")/.." && pwd)
cd /repo || exit 2
git diff --quiet || { echo "/repo has uncommitted changes"; exit 2; }
git apply "$P" || { echo "patch does not apply: $P"; exit 2; }
trap 'cd /repo && git checkout -- . ' EXIT INT TERM
cd "$ROOT"
for ID in "$@"; do
  OUT=$(./check "$ID" --tier quick --no-mc 2>&1); RC=$?
  F=$(echo "$OUT" | grep -E "^violated formula" | head -3 | tr '\n' ';')
  echo "$(basename $P) $ID exit=$RC $F"
  [ $RC -eq 2 ] && echo "$OUT" | tail -5
done
