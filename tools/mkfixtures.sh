#!/bin/sh
# tools/mkfixtures.sh: records contract states as the CURRENT /repo tree writes them into fixtures/<sys>.ndjson.
# Run it only on the unchanged tree (after a harness change that alters addresses or the observation format):
# the fixtures stand for "storage written by the release"; checks load them into the code under test.
ROOT=$(cd "$(dirname "$0")/.." && pwd)
exec 9>/tmp/repo.lock
flock 9          # nobody may have a patch applied to /repo meanwhile
cd /repo && git diff --quiet || { echo "/repo has uncommitted changes: fixtures must come from the unchanged tree"; exit 2; }
cd "$ROOT/harness" && CARGO_TARGET_DIR="$ROOT/harness/target" cargo build --release --offline 2>&1 | tail -1
mkdir -p "$ROOT/fixtures"
"$ROOT/harness/target/release/cwv" cw20 --mode mkfixtures --random 40 --len 30 --seed 7 --out "$ROOT/fixtures/cw20.ndjson" || exit 2
"$ROOT/harness/target/release/cwv" cw1 --mode mkfixtures --random 30 --len 30 --seed 7 --out "$ROOT/fixtures/cw1.ndjson" || exit 2
"$ROOT/harness/target/release/cwv" ics20 --mode mkfixtures --random 30 --len 30 --seed 7 --out "$ROOT/fixtures/ics20.ndjson" || exit 2
wc -l "$ROOT"/fixtures/*.ndjson
