#!/usr/bin/env python3
"""tools/selftest.py — demonstrates the binding between recorded traces and the specifications:
records a small trace per subsystem on the current tree, corrupts ONE recorded field per case and
expects TLC to reject the trace with the named formula (and to accept the uncorrupted trace).
Exit 0 if every corruption is caught by the expected formula."""
import json, os, sys, shutil, copy
sys.path.insert(0, os.path.join(os.path.dirname(os.path.abspath(__file__)), "..", "lib"))
import driver as D
from props import SYS, PROPS

def first(evs, pred):
    for i, e in enumerate(evs):
        if pred(e):
            return i
    return None

def bump_all_after(evs, i, f):
    """apply f to the obs of event i and every later event of the same run (a persistent corruption)"""
    j = i
    while j < len(evs) and (j == i or evs[j]["act"] != "reset"):
        f(evs[j]); j += 1

CASES = [
  # (property, description, locate event, mutate (in place, from that event on), expected formula)
  ("C01", "supply reported one too high after a transfer", lambda e: e["act"] == "transfer" and e["ok"] and e["args"]["amt"] > 0,
      lambda e: e["obs"].__setitem__("supply", e["obs"]["supply"] + 1), True, {"C01_SupplyIsSum", "T_C01_MovesKeepSupply", "T_C01_SupplyMoves"}),
  ("C02", "Send notification names another sender", lambda e: e["act"] == "send" and e["ok"],
      lambda e: e["out"][0].__setitem__("sender", "a3" if e["out"][0]["sender"] != "a3" else "a2"), False, {"T_C02_ReceiveNotified"}),
  ("C13", "cap changes on a hand-over", lambda e: e["act"] == "update_minter" and e["ok"] and e["args"]["new"] != "none",
      lambda e: e["obs"]["minter"].__setitem__("cap", e["obs"]["minter"]["cap"] + 5 if e["obs"]["minter"]["addr"] != "none" else -1), True, {"T_C13_MinterWriters", "T_C13_HandOverExact"}),
  ("C19", "spender listing loses an entry", lambda e: e["act"] == "increase_allowance" and e["ok"] and len(e["obs"]["bySpender"]) > 0,
      lambda e: e["obs"].__setitem__("bySpender", e["obs"]["bySpender"][1:]), False, {"C19_ViewsAgree"}),
  ("C03", "status reported passed on an open proposal", lambda e: e["act"] == "propose" and e["ok"] and e["obs"]["props"][-1]["status"] == "open",
      lambda e: e["obs"]["props"][-1].__setitem__("status", "passed"), False, {"C03_StatusMatches"}),
  ("C05", "executed proposal dispatches an extra message", lambda e: e["act"] == "execute" and e["ok"],
      lambda e: e["out"].append({"k": "msg", "tag": "sink:999", "a": "", "b": "", "amt": 0}), False, {"T_C05_DispatchExact"}),
  ("C06", "ballot weight differs from the snapshot", lambda e: e["act"] == "vote" and e["ok"],
      lambda e: [v.__setitem__("w", v["w"] + 1) for p in e["obs"]["props"] if p["id"] == e["args"]["id"] for v in p["votes"] if v["voter"] == e["by"]], False, {"T_C06_BallotWeight", "C06_TotalIsSnapshotSum"}),
  ("C15", "refund goes to somebody else", lambda e: e["act"] == "execute" and e["ok"] and any(m["k"] == "refund" for m in e["out"]),
      lambda e: [m.__setitem__("a", "sink") for m in e["out"] if m["k"] == "refund"], False, {"T_C15_RefundOnExecute"}),
  ("C11", "holdings one short of the outstanding balance", lambda e: e["act"] == "transfer" and e["ok"] and e["args"]["denom"] == "nat",
      lambda e: e["obs"]["held"].__setitem__("nat", e["obs"]["held"]["nat"] - 1), True, {"C11_Solvent", "T_C11_HeldWriters"}),
  ("C12", "error acknowledgement with reduced books", lambda e: e["act"] == "recv" and e["ack"] == "err" and e["args"]["ch"] == "ch1" and e["obs"]["chan"]["ch1"]["nat"]["out"] > 0,
      lambda e: e["obs"]["chan"]["ch1"]["nat"].__setitem__("out", e["obs"]["chan"]["ch1"]["nat"]["out"] - 1), True, {"T_C12_ErrorAckNoChange", "C12_Identity"}),
  ("C18", "payout carries a wrong gas limit", lambda e: e["act"] == "recv" and e["ack"] == "ok" and e["args"]["denom"] == "tok",
      lambda e: e["out"][0].__setitem__("gas", 12345), False, {"T_C18_PayoutGas"}),
  ("C09", "point-in-time answer off by one", lambda e: e["act"] == "query" and e["args"]["kind"] == "member" and e["args"]["ans"] >= 0,
      lambda e: e["args"].__setitem__("ans", e["args"]["ans"] + 1), False, {"T_C09_AtHeight"}),
  ("C10", "claim pays one unit too much", lambda e: e["act"] == "claim" and e["ok"],
      lambda e: e["obs"].__setitem__("held", e["obs"]["held"] - 1), True, {"T_C10_ClaimExact", "C10_Backed"}),
  ("C14", "hook notification reports a wrong previous weight", lambda e: e["ok"] and any(m["k"] == "hook" and m["diffs"] for m in e["out"]),
      lambda e: [m["diffs"][0].__setitem__("old", m["diffs"][0]["old"] + 1) for m in e["out"] if m["k"] == "hook" and m["diffs"]], False, {"T_C14_HooksTruthful"}),
  ("C04", "decision flipped on a grid case", lambda e: e["act"] == "case" and e["expired"] and not e["passed"],
      lambda e: (e.__setitem__("passed", True), e.__setitem__("status", "passed")), False, {"C04_AfterExpiryExact", "C04_NeverPassedWithoutYes", "C04_NotBoth"}),
  ("C20", "a page skips its first item", lambda e: e["act"] == "page" and len(e["keys"]) > 1,
      lambda e: e.__setitem__("keys", e["keys"][1:]), False, {"C20_PageCorrect"}),
]

def main():
    D.build_harness()
    work = os.path.join(D.WORK, "selftest")
    shutil.rmtree(work, ignore_errors=True)
    os.makedirs(work)
    traces, bad = {}, 0
    only = set(sys.argv[1:])
    for pid, desc, loc, mut, persistent, expected in CASES:
        if pid not in PROPS or (only and pid not in only):
            continue
        prop = PROPS[pid]; sysd = SYS[prop["sys"]]; name = sysd["harness"]
        if name not in traces:
            tp = os.path.join(work, name + ".ndjson")
            mode = prop.get("mode"); mode = mode.get("quick") if isinstance(mode, dict) else mode
            D.run_harness(name, tp, tp + ".stats", random=(2000 if name == "thr" else 1 if name == "paging" else 150), length=40, seed=7, mode=mode)
            traces[name] = [json.loads(l) for l in open(tp)]
        evs = copy.deepcopy(traces[name])
        i = first(evs, loc)
        if i is None:
            print("SELFTEST %s: no event to corrupt (%s)" % (pid, desc)); bad += 1; continue
        # keep only the run containing the event
        s = i
        while evs[s]["act"] != "reset": s -= 1
        e = i + 1
        while e < len(evs) and evs[e]["act"] != "reset": e += 1
        run = evs[s:e]
        good = os.path.join(work, "%s-good.ndjson" % pid)
        open(good, "w").write("\n".join(json.dumps(x) for x in run) + "\n")
        k = i - s
        if persistent:
            bump_all_after(run, k, mut)
        else:
            mut(run[k])
        badp = os.path.join(work, "%s-bad.ndjson" % pid)
        open(badp, "w").write("\n".join(json.dumps(x) for x in run) + "\n")
        w1 = os.path.join(work, pid + "-g"); os.makedirs(w1, exist_ok=True)
        w2 = os.path.join(work, pid + "-b"); os.makedirs(w2, exist_ok=True)
        rg = D.validate_trace(sysd, prop, [good], w1, par=1)
        rb = D.validate_trace(sysd, prop, [badp], w2, par=1)
        okg = all(not r["violated"] and not r["error"] for r in rg)
        vb = {r["violated"] for r in rb if r["violated"]}
        ok = okg and bool(vb & expected)
        print("SELFTEST %s: %-55s good trace %s, corrupted trace -> %s %s" % (pid, desc, "accepted" if okg else "REJECTED", sorted(vb) or [r["error"] for r in rb], "ok" if ok else "UNEXPECTED"))
        bad += 0 if ok else 1
    shutil.rmtree(work, ignore_errors=True)
    return 1 if bad else 0

if __name__ == "__main__":
    sys.exit(main())
