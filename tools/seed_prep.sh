#!/bin/bash
# tools/seed_prep.sh <ID>...: create scratch worktrees /tmp/seed/<ID> of /repo HEAD and the agent prompt files
mkdir -p /tmp/seed
for id in "$@"; do
  git -C /repo worktree add --detach /tmp/seed/$id >/dev/null 2>&1 || echo "worktree $id exists?"
  python3 - $id <<'PY'
import json,sys
i=sys.argv[1]
for l in open('/verif/properties.jsonl'):
    p=json.loads(l)
    if p['id']==i:
        prop="%s — %s\n\n%s\n\nQuantified over: %s"%(p['id'],p['title'],p['statement'],p['quantifier']['text'])
t=open('/verif/tools/seed_prompt.tmpl').read().replace('__WT__','/tmp/seed/'+i).replace('__PROP__',prop)
open('/tmp/seed/%s.prompt.txt'%i,'w').write(t)
PY
done
