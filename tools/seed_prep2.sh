#!/bin/bash
# tools/seed_prep2.sh <ID>...: second-round seed worktrees /tmp/seed/<ID>r2 with prompts that exclude round-1 ideas
mkdir -p /tmp/seed
for id in "$@"; do
  git -C /repo worktree add --detach /tmp/seed/${id}r2 >/dev/null 2>&1 || echo "worktree ${id}r2 exists?"
  python3 - $id <<'PY'
import json,sys,glob
i=sys.argv[1]
for l in open('/verif/properties.jsonl'):
    p=json.loads(l)
    if p['id']==i:
        prop="%s — %s\n\n%s\n\nQuantified over: %s"%(p['id'],p['title'],p['statement'],p['quantifier']['text'])
known=[]
for d in sorted(glob.glob('/verif/seeded/%s-*'%i)):
    first=open(d+'/notes.md').read().strip().splitlines()
    known.append("- "+" ".join(x.strip() for x in first[:3])[:400])
t=open('/verif/tools/seed_prompt.tmpl').read().replace('__WT__','/tmp/seed/'+i+'r2').replace('__PROP__',prop)
t=t.replace("Your task: produce TWO different,","The following changes have ALREADY been produced by someone else for this property; yours must be in DIFFERENT mechanisms / code paths and need DIFFERENT circumstances to manifest (do not produce variants of these):\n"+"\n".join(known)+"\n\nYour task: produce TWO different,")
open('/tmp/seed/%sr2.prompt.txt'%i,'w').write(t)
PY
done
