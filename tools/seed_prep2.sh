#!/bin/bash
# tools/seed_prep2.sh <ID>...: later-round seed worktrees /tmp/seed/<ID><suffix> with prompts that list what earlier
# rounds produced. Env: SEED_SUFFIX (default r2), SEED_TMPL (default seed_prompt.tmpl; seed_prompt3.tmpl = hard-to-reach round)
SUF=${SEED_SUFFIX:-r2}
mkdir -p /tmp/seed
for id in "$@"; do
  git -C /repo worktree add --detach /tmp/seed/${id}${SUF} >/dev/null 2>&1 || echo "worktree ${id}${SUF} exists?"
  SUF=$SUF python3 - $id <<'PY'
import json,sys,glob,os
i=sys.argv[1]; suf=os.environ['SUF']; tmpl=os.environ.get('SEED_TMPL','seed_prompt.tmpl')
for l in open('/verif/properties.jsonl'):
    p=json.loads(l)
    if p['id']==i:
        prop="%s — %s\n\n%s\n\nQuantified over: %s"%(p['id'],p['title'],p['statement'],p['quantifier']['text'])
known=[]
for d in sorted(glob.glob('/verif/seeded/%s-*'%i)+glob.glob('/verif/seeded/%sr*-*'%i)):
    first=open(d+'/notes.md').read().strip().splitlines()
    known.append("- "+" ".join(x.strip() for x in first[:3])[:400])
t=open('/verif/tools/'+tmpl).read().replace('__WT__','/tmp/seed/'+i+suf).replace('__PROP__',prop)
t=t.replace("Your task: produce TWO different,","The following changes have ALREADY been produced by someone else for this property; yours must be in DIFFERENT mechanisms / code paths and need DIFFERENT circumstances to manifest (do not produce variants of these):\n"+"\n".join(known)+"\n\nYour task: produce TWO different,")
open('/tmp/seed/%s%s.prompt.txt'%(i,suf),'w').write(t)
PY
done
