#!/bin/sh
# tools/conformance.sh — runs the extension checks (behaviour of the specifications beyond the listed
# properties; ids X..). They must hold on the unchanged tree; they are not part of MANIFEST.json because a
# violation of them is not a violation of a listed property.
cd "$(dirname "$0")/.."
RC=0
for id in $(python3 -c "import sys; sys.path.insert(0,'lib'); from props import PROPS; print(' '.join(p for p in sorted(PROPS) if PROPS[p].get('extension')))"); do
  ./check $id --tier ${1:-quick} | tail -1 || RC=1
done
exit $RC
