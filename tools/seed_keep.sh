#!/bin/bash
# tools/seed_keep.sh <ID> <variant a|b> <cargo package> <test filter> [check ids...]
# 1. verifies a sub-agent's seeded change in the scratch worktree /tmp/seed/<ID>:
#    pristine+demo passes, patch+demo fails, patch alone passes the whole suite;
# 2. applies the patch to /repo, runs the quick checks (default: <ID>), restores /repo;
# 3. stores patch.diff, demo.diff, notes.md and meta.json under /verif/seeded/<ID>-<variant>/.
ID=$1; V=$2; PKG=$3; FILTER=$4; shift 4
CHECKS="${@:-$ID}"
WT=/tmp/seed/$ID; S=$WT/_seed/$V; DEST=/verif/seeded/$ID-$V
export CARGO_TARGET_DIR=${SEED_TARGET:-/tmp/seed/target-shared} CARGO_NET_OFFLINE=true
cd $WT || exit 2
git checkout -q -- . ; git clean -qfd -e _seed >/dev/null
git apply $S/demo.diff || { echo "demo.diff does not apply"; exit 2; }
cargo test -q -p $PKG --offline $FILTER > /tmp/seed/$ID-$V.1.log 2>&1; R1=$?
git apply $S/patch.diff || { echo "patch.diff does not apply with demo"; exit 2; }
cargo test -q -p $PKG --offline $FILTER > /tmp/seed/$ID-$V.2.log 2>&1; R2=$?
git checkout -q -- . ; git clean -qfd -e _seed >/dev/null
git apply $S/patch.diff
cargo test --workspace --offline --no-fail-fast > /tmp/seed/$ID-$V.3.log 2>&1; R3=$?
PASSED=$(grep -E "^test result" /tmp/seed/$ID-$V.3.log | awk '{p+=$4; f+=$6} END {print p" passed "f" failed"}')
git checkout -q -- . ; git clean -qfd -e _seed >/dev/null
echo "verify: pristine+demo rc=$R1 (want 0), patch+demo rc=$R2 (want !=0), patch suite rc=$R3 (want 0): $PASSED"
if [ $R1 -ne 0 ] || [ $R2 -eq 0 ] || [ $R3 -ne 0 ]; then echo "NOT CONFIRMED"; exit 3; fi
unset CARGO_TARGET_DIR
RES=""
for C in $CHECKS; do
  L=$(/verif/tools/mutant.sh $S/patch.diff $C | head -1)
  echo "$L"
  RES="$RES$L | "
done
mkdir -p $DEST && cp $S/patch.diff $S/demo.diff $S/notes.md $DEST/
python3 - "$ID" "$V" "$PKG" "$FILTER" "$PASSED" "$RES" <<'PY'
import json,sys,re
ID,V,PKG,FILTER,PASSED,RES=sys.argv[1:7]
notes=open('/verif/seeded/%s-%s/notes.md'%(ID,V)).read()
meta={"property":ID,"variant":V,"source":"independent sub-agent given only the property text and a scratch worktree",
 "needs_to_manifest": next((l.strip('- ').strip() for l in notes.splitlines() if 'manifest' in l.lower() or 'needed' in l.lower()), ""),
 "demo":{"package":PKG,"test_filter":FILTER,"pristine_plus_demo":"pass","patch_plus_demo":"fail","suite_with_patch":PASSED},
 "what_i_ran":["tools/seed_keep.sh %s %s %s %s"%(ID,V,PKG,FILTER)],
 "checks":[r.strip() for r in RES.split('|') if r.strip()]}
json.dump(meta,open('/verif/seeded/%s-%s/meta.json'%(ID,V),'w'),indent=1)
PY
echo "stored $DEST"
