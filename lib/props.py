"""Per-subsystem and per-property configuration of the checks."""

COMMON_ASSUMPTIONS = [
    "cw-multi-test 2.0 stands in for wasmd (atomic transactions, sub-messages, replies, bank); contracts run natively, not as wasm",
    "external crates cosmwasm-std, cw-storage-plus, cw-utils, cw-controllers are exercised through the contracts, not verified themselves",
    "TLC results are exhaustive only for the stated small constants; the scale abstraction (DESIGN C-4) is exact for the linear arithmetic the contracts use",
    "the projection trusts point queries to read storage faithfully",
]

SYS = {
    "cw20": {
        "dir": "spec/cw20",
        "harness": "cw20",
        "mc": {
            "quick": [{"module": "Cw20MC", "consts": "Cw20MC_quick.consts", "view": "View"}],
            "thorough": [{"module": "Cw20MC", "consts": "Cw20MC_quick.consts", "view": "View"},
                         {"module": "Cw20MC", "consts": "Cw20MC_thorough.consts", "view": "View"}],
        },
        "gen": {
            "quick": [{"module": "Cw20MC", "consts": "Cw20MC_gen.consts", "num": 120, "depth": 40}],
            "thorough": [{"module": "Cw20MC", "consts": "Cw20MC_gen.consts", "num": 1500, "depth": 40}],
        },
        "random": {"quick": (300, 40), "thorough": (12000, 60)},
        "trace": {"module": "Cw20Trace", "consts": '  Addr = {"a1", "a2", "a3", "k1"}\n'},
    },
    "cw3": {
        "dir": "spec/cw3",
        "harness": "cw3",
        "kf": {"D3": "KnownD3", "D6": "KnownD6"},
        "mc": {
            "quick": [{"module": "Cw3MC", "consts": "Cw3MC_fixed_q.consts", "view": "View"},
                      {"module": "Cw3MC", "consts": "Cw3MC_flex_q.consts", "view": "View"}],
            "thorough": [{"module": "Cw3MC", "consts": "Cw3MC_fixed_t.consts", "view": "View"},
                         {"module": "Cw3MC", "consts": "Cw3MC_fixed_t2.consts", "view": "View"},
                         {"module": "Cw3MC", "consts": "Cw3MC_flex_t.consts", "view": "View"},
                         {"module": "Cw3MC", "consts": "Cw3MC_flex_t2.consts", "view": "View"}],
        },
        "gen": {
            "quick": [{"module": "Cw3MC", "consts": "Cw3MC_gen_fixed.consts", "num": 40, "depth": 40},
                      {"module": "Cw3MC", "consts": "Cw3MC_gen_flex.consts", "num": 40, "depth": 40},
                      {"module": "Cw3MC", "consts": "Cw3MC_gen_flex2.consts", "num": 40, "depth": 40}],
            "thorough": [{"module": "Cw3MC", "consts": "Cw3MC_gen_fixed.consts", "num": 500, "depth": 40},
                         {"module": "Cw3MC", "consts": "Cw3MC_gen_flex.consts", "num": 500, "depth": 40},
                         {"module": "Cw3MC", "consts": "Cw3MC_gen_flex2.consts", "num": 500, "depth": 40}],
        },
        "random": {"quick": (300, 40), "thorough": (10000, 50)},
        "trace": {"module": "Cw3Trace", "consts": '  PDEN = 1000\n  PREC = 1000\n  Addr = {"a1", "a2", "a3"}\n'},
    },
    "thr": {
        "dir": "spec/cw3",
        "harness": "thr",
        "mc": {
            "quick": [{"module": "Cw3ThresholdMC", "consts": "Cw3ThresholdMC_quick.consts"}],
            "thorough": [{"module": "Cw3ThresholdMC", "consts": "Cw3ThresholdMC_thorough.consts"}],
        },
        "gen": {},
        "random": {"quick": (6000, 0), "thorough": (400000, 0)},
        "trace": {"module": "Cw3ThresholdTrace", "consts": "  PDEN = 1000\n  PREC = 1000\n"},
    },
}

PROPS = {
    "C01": {
        "sys": "cw20",
        "mc_inv": ["TypeOK", "C01_SupplyIsSum"], "mc_props": ["A_C01"],
        "tr_inv": ["C01_SupplyIsSum"],
        "tr_props": ["T_C01_SupplyMoves", "T_C01_MintBurnOneBalance", "T_C01_MovesKeepSupply", "T_C01_OthersKeep", "T_C01_Init"],
        "acts": ["transfer", "send", "burn", "mint", "transfer_from", "send_from", "burn_from"],
    },
    "C02": {
        "sys": "cw20",
        "mc_inv": ["TypeOK", "C02_WithinGrants"], "mc_props": ["A_C02"],
        "tr_inv": ["C02_WithinGrants"],
        "tr_props": ["T_C02_DebitAuthorised", "T_C02_DrawGuard", "T_C02_DrawExact", "T_C02_MoveExact", "T_C02_AllowanceWriters",
                     "T_C02_IncreaseExact", "T_C02_DecreaseSaturating", "T_C02_ReceiveNotified", "T_C02_FailRollsBack"],
        "acts": ["transfer", "send", "burn", "increase_allowance", "decrease_allowance", "transfer_from", "send_from", "burn_from", "advance"],
    },
    "C13": {
        "sys": "cw20",
        "mc_inv": ["TypeOK", "C13_Cap"], "mc_props": ["A_C13"],
        "tr_inv": ["C13_Cap"],
        "tr_props": ["T_C13_MintByMinter", "T_C13_MinterWriters", "T_C13_HandOverExact", "T_C13_RenounceForever", "T_C13_Init"],
        "acts": ["mint", "burn", "update_minter"],
    },
    "C19": {
        "sys": "cw20",
        "mc_inv": ["TypeOK", "C19_ViewsAgree"], "mc_props": ["A_C19"],
        "tr_inv": ["C19_ViewsAgree"],
        "tr_props": ["T_C19_MigrateKeeps", "T_C19_OnlyMigrateMigrates"],
        "acts": ["increase_allowance", "decrease_allowance", "transfer_from", "send_from", "burn_from", "migrate"],
    },
    "C04": {
        "sys": "thr",
        "mode": {"quick": "grid:7", "thorough": "grid:10"},
        "mc_inv": ["AfterExpiryExact", "NeverPassedWithoutYes", "EarlyPassExact", "EarlyRejectSound", "AfterExpiryRejectSound", "NotBoth", "NeededExact", "RulePassedIsCertain", "RuleCanPassExact"],
        "mc_props": [],
        "tr_inv": ["C04_NoPanic", "C04_AfterExpiryExact", "C04_EarlyPassExact", "C04_EarlyRejectSound", "C04_AfterExpiryRejectSound",
                   "C04_NeverPassedWithoutYes", "C04_NotBoth", "C04_StatusConsistent", "C04_BigNoPanic", "C04_BigExact", "C04_BigWithinOne"],
        "tr_props": [],
        "acts": ["case", "bigcase"],
        "assumptions": ["AbsoluteCount weights above the total weight (rejected by Threshold::validate, where is_rejected underflows) are outside the checked domain",
                        "early-decision soundness at u64 magnitudes rests on the closed forms, whose equivalence with the quantification over all completions is checked exhaustively only on the small domain"],
    },
    "C03": {
        "sys": "cw3",
        "mc_inv": ["C03_StatusMatches", "C03_PassedHasYes"], "mc_props": ["A_C03"],
        "tr_inv": ["C03_StatusMatches", "C03_PassedHasYes"],
        "tr_props": ["T_C03_ExecuteAdmitted", "T_C03_CloseAdmitted"],
        "acts": ["propose", "vote", "execute", "close", "advance"],
        "assumptions": ["weights below 10^6 and permille thresholds (full-precision percentages and u64 weights are C04's subject)",
                        "the closed forms RulePassed/RuleCanPass stand for the quantification over all completions (equivalence model-checked on the complete small domain by Cw3ThresholdMC)"],
    },
    "C05": {
        "sys": "cw3",
        "mc_inv": ["C05_AtMostOnce"], "mc_props": ["A_C05"],
        "tr_inv": ["C05_AtMostOnce"],
        "tr_props": ["T_C05_DispatchExact", "T_C05_ExecutorRule", "T_C05_FailedKeeps", "T_C05_StatusMonotone", "T_C05_IdsIncrease",
                     "T_C05_Immutable", "T_C05_ExpiryBounded", "T_C05_CloseOnlyExpiredFailed", "T_C05_VoteEmitsNothing"],
        "acts": ["propose", "vote", "execute", "close", "advance", "flaky"],
    },
    "C06": {
        "sys": "cw3",
        "mc_inv": ["C06_TotalIsSnapshotSum", "C06_SnapshotAsObserved", "C06_TableTotal"], "mc_props": ["A_C06"],
        "tr_inv": ["C06_TotalIsSnapshotSum", "C06_SnapshotAsObserved", "C06_TableTotal", "C06_OnlyKnownVoters"],
        "tr_props": ["T_C06_OneBallot", "T_C06_VoteWindow", "T_C06_BallotWeight", "T_C06_ProposerBallot", "T_C06_LaterChangesIrrelevant", "T_C06_FixedTableStatic"],
        "acts": ["propose", "vote", "group_update", "advance"],
    },
    "C15": {
        "sys": "cw3",
        "mc_inv": ["C15_PoolIsHeld", "C15_RecoverableMC"], "mc_props": ["A_C15"],
        "tr_inv": ["C15_PoolIsHeld"],
        "tr_props": ["T_C15_ProposeTakes", "T_C15_RefundOnExecute", "T_C15_RefundOnClose", "T_C15_NoOtherMoves", "T_C15_CloseMustSucceed"],
        "acts": ["propose", "vote", "execute", "close", "approve"],
    },
}
