"""Per-subsystem and per-property configuration of the checks."""

COMMON_ASSUMPTIONS = [
    "cw-multi-test 2.0 stands in for wasmd (atomic transactions, sub-messages, replies, bank); contracts run natively, not as wasm",
    "external crates cosmwasm-std, cw-storage-plus, cw-utils, cw-controllers are exercised through the contracts, not verified themselves",
    "TLC results are exhaustive only for the stated small constants; the scale abstraction (DESIGN C-4) is exact for the linear arithmetic the contracts use",
    "the projection trusts point queries to read storage faithfully",
]

SYS = {
    "cw20": {
        "dir": "spec/cw20",
        "harness": "cw20",
        "mc": {
            "quick": [{"module": "Cw20MC", "consts": "Cw20MC_quick.consts", "view": "View"}],
            "thorough": [{"module": "Cw20MC", "consts": "Cw20MC_quick.consts", "view": "View"},
                         {"module": "Cw20MC", "consts": "Cw20MC_thorough.consts", "view": "View"}],
        },
        "gen": {
            "quick": [{"module": "Cw20MC", "consts": "Cw20MC_gen.consts", "num": 120, "depth": 40}],
            "thorough": [{"module": "Cw20MC", "consts": "Cw20MC_gen.consts", "num": 1500, "depth": 40}],
        },
        "random": {"quick": (300, 40), "thorough": (12000, 60)},
        "trace": {"module": "Cw20Trace", "consts": '  Addr = {"a1", "a2", "a3", "k1"}\n'},
    },
    "thr": {
        "dir": "spec/cw3",
        "harness": "thr",
        "mc": {
            "quick": [{"module": "Cw3ThresholdMC", "consts": "Cw3ThresholdMC_quick.consts"}],
            "thorough": [{"module": "Cw3ThresholdMC", "consts": "Cw3ThresholdMC_thorough.consts"}],
        },
        "gen": {},
        "random": {"quick": (6000, 0), "thorough": (400000, 0)},
        "trace": {"module": "Cw3ThresholdTrace", "consts": "  PDEN = 1000\n  PREC = 1000\n"},
    },
}

PROPS = {
    "C01": {
        "sys": "cw20",
        "mc_inv": ["TypeOK", "C01_SupplyIsSum"], "mc_props": ["A_C01"],
        "tr_inv": ["C01_SupplyIsSum"],
        "tr_props": ["T_C01_SupplyMoves", "T_C01_MintBurnOneBalance", "T_C01_MovesKeepSupply", "T_C01_OthersKeep", "T_C01_Init"],
        "acts": ["transfer", "send", "burn", "mint", "transfer_from", "send_from", "burn_from"],
    },
    "C02": {
        "sys": "cw20",
        "mc_inv": ["TypeOK", "C02_WithinGrants"], "mc_props": ["A_C02"],
        "tr_inv": ["C02_WithinGrants"],
        "tr_props": ["T_C02_DebitAuthorised", "T_C02_DrawGuard", "T_C02_DrawExact", "T_C02_MoveExact", "T_C02_AllowanceWriters",
                     "T_C02_IncreaseExact", "T_C02_DecreaseSaturating", "T_C02_ReceiveNotified", "T_C02_FailRollsBack"],
        "acts": ["transfer", "send", "burn", "increase_allowance", "decrease_allowance", "transfer_from", "send_from", "burn_from", "advance"],
    },
    "C13": {
        "sys": "cw20",
        "mc_inv": ["TypeOK", "C13_Cap"], "mc_props": ["A_C13"],
        "tr_inv": ["C13_Cap"],
        "tr_props": ["T_C13_MintByMinter", "T_C13_MinterWriters", "T_C13_HandOverExact", "T_C13_RenounceForever", "T_C13_Init"],
        "acts": ["mint", "burn", "update_minter"],
    },
    "C19": {
        "sys": "cw20",
        "mc_inv": ["TypeOK", "C19_ViewsAgree"], "mc_props": ["A_C19"],
        "tr_inv": ["C19_ViewsAgree"],
        "tr_props": ["T_C19_MigrateKeeps", "T_C19_OnlyMigrateMigrates"],
        "acts": ["increase_allowance", "decrease_allowance", "transfer_from", "send_from", "burn_from", "migrate"],
    },
    "C04": {
        "sys": "thr",
        "mode": {"quick": "grid:7", "thorough": "grid:10"},
        "mc_inv": ["AfterExpiryExact", "NeverPassedWithoutYes", "EarlyPassExact", "EarlyRejectSound", "AfterExpiryRejectSound", "NotBoth", "NeededExact"],
        "mc_props": [],
        "tr_inv": ["C04_NoPanic", "C04_AfterExpiryExact", "C04_EarlyPassExact", "C04_EarlyRejectSound", "C04_AfterExpiryRejectSound",
                   "C04_NeverPassedWithoutYes", "C04_NotBoth", "C04_StatusConsistent", "C04_BigNoPanic", "C04_BigExact", "C04_BigWithinOne"],
        "tr_props": [],
        "acts": ["case", "bigcase"],
        "assumptions": ["AbsoluteCount weights above the total weight (rejected by Threshold::validate, where is_rejected underflows) are outside the checked domain",
                        "early-decision soundness at u64 magnitudes rests on the closed forms, whose equivalence with the quantification over all completions is checked exhaustively only on the small domain"],
    },
}
