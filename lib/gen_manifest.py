#!/usr/bin/env python3
"""Regenerates MANIFEST.json from lib/props.py and lib/manifest_meta.py (single source of truth)."""
import json, os, sys
sys.path.insert(0, os.path.dirname(os.path.abspath(__file__)))
from props import PROPS
from manifest_meta import META, NOT_APPLICABLE, NOTES

ROOT = os.path.dirname(os.path.dirname(os.path.abspath(__file__)))
checks = []
for pid in sorted(PROPS):
    if PROPS[pid].get("extension"):
        continue
    m = META[pid]
    checks.append({
        "property_id": pid,
        "quick_cmd": "./check %s --tier quick" % pid,
        "thorough_cmd": "./check %s --tier thorough" % pid,
        "evidence_file": "evidence/%s.json" % pid,
        "replay_cmd_template": "./check %s --replay {path}" % pid,
        "engine": m.get("engine", "tlc+cwv"),
        "level_claimed": {"category": m.get("category", "model_checking"), "text": m["text"], "design_ref": m["design_ref"]},
        "level_note": m["note"],
        "technique": m["technique"],
    })
man = {
    "version": 1,
    "setup_cmd": "./setup.sh",
    "hooks": {
        "guard": "cw_plus_verif",
        "enable": "none needed: all observation is through the public entry points and harness-side recorder wrappers (no source hooks in /repo)",
        "baseline_off_cmd": "cd /repo && cargo test --workspace --no-fail-fast --offline",
        "source_commits": [],
        "add_only": True,
    },
    "engines": [
        {"name": "tlc", "path": "/opt/veriftools/tla/tla2tools.jar", "serves_properties": sorted(p for p in PROPS if not PROPS[p].get("extension")), "kind_free_text": "explicit-state model checker for the TLA+ specifications in spec/ (exhaustive runs, schedule generation, trace validation)"},
        {"name": "cwv", "path": "harness/", "serves_properties": sorted(p for p in PROPS if not PROPS[p].get("extension")), "kind_free_text": "Rust conformance harness: runs the real contracts in cw-multi-test, records ndjson traces of projected abstract state"},
    ],
    "checks": checks,
    "notes": NOTES,
    "not_applicable": [{"property_id": p, "reason": r} for p, r in sorted(NOT_APPLICABLE.items()) if p not in PROPS],
}
json.dump(man, open(os.path.join(ROOT, "MANIFEST.json"), "w"), indent=1)
print("MANIFEST.json:", len(checks), "checks,", len(man["not_applicable"]), "not_applicable")
