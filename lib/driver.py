"""Driver of the model-based checks (DESIGN.md section 3.3).

One check = (1) rebuild the harness from /repo's working tree, (2) TLC model-checks the subsystem
specification with the property's formulas, (3) TLC generates schedules from the same
specification, (4) the harness executes them (plus seeded random runs) on the real contracts and
records a trace, (5) TLC validates the trace against the property's formulas, (6) evidence is
written.  Exit 0 = held, 1 = VIOLATION line printed, 2 = tool error / timeout / vacuity.
"""
import json, os, re, shutil, subprocess, sys, time, concurrent.futures

ROOT = os.path.dirname(os.path.dirname(os.path.abspath(__file__)))
HARNESS = os.path.join(ROOT, "harness")
CWV = os.path.join(HARNESS, "target", "release", "cwv")
WORK = os.path.join(ROOT, "work")
REPLAYS = os.path.join(ROOT, "replays")
EVID = os.path.join(ROOT, "evidence")
TLA_JAR = "/opt/veriftools/tla/tla2tools.jar"


class ToolError(Exception):
    pass


def log(*a):
    print(*a, flush=True)


def run(cmd, cwd=None, env=None, timeout=None, stdout=None):
    e = dict(os.environ)
    if env:
        e.update(env)
    t0 = time.time()
    try:
        p = subprocess.run(cmd, cwd=cwd, env=e, timeout=timeout, stdout=stdout or subprocess.PIPE,
                           stderr=subprocess.STDOUT, text=True)
    except subprocess.TimeoutExpired as ex:
        out = ex.stdout if isinstance(ex.stdout, str) else (ex.stdout or b"").decode("utf-8", "replace")
        return 124, out, time.time() - t0
    return p.returncode, p.stdout if p.stdout is not None else "", time.time() - t0


# ----------------------------------------------------------------------------------- build
def build_harness():
    """cargo build --offline: always from /repo's current working tree (path dependencies)."""
    env = {"CARGO_NET_OFFLINE": "true", "CARGO_TARGET_DIR": os.path.join(HARNESS, "target")}
    rc, out, dt = run(["cargo", "build", "--release", "--offline"], cwd=HARNESS, env=env, timeout=1500)
    if rc != 0:
        log(out[-4000:])
        raise ToolError("harness build failed (does /repo compile?)")
    return dt


# ----------------------------------------------------------------------------------- TLC
def write_cfg(path, spec, consts_text, invariants=(), properties=(), view=None, postcondition=None,
              constraint=None, alias=None, symmetry=None):
    with open(path, "w") as f:
        f.write("SPECIFICATION %s\n" % spec)
        if consts_text.strip():
            f.write("CONSTANTS\n" + consts_text.rstrip() + "\n")
        if view:
            f.write("VIEW %s\n" % view)
        if symmetry:
            f.write("SYMMETRY %s\n" % symmetry)
        if constraint:
            f.write("CONSTRAINT %s\n" % constraint)
        if invariants:
            f.write("INVARIANTS " + " ".join(invariants) + "\n")
        if properties:
            f.write("PROPERTIES " + " ".join(properties) + "\n")
        if postcondition:
            f.write("POSTCONDITION %s\n" % postcondition)
        if alias:
            f.write("ALIAS %s\n" % alias)
        f.write("CHECK_DEADLOCK FALSE\n")


def tlc(module_path, cfg_path, workdir, workers=8, extra=(), env=None, timeout=900, java_opts="", heap=None):
    meta = os.path.join(workdir, "meta-" + os.path.basename(cfg_path))
    shutil.rmtree(meta, ignore_errors=True)
    jopts = java_opts
    e = {}
    if env:
        e.update(env)
    if jopts:
        e["JAVA_TOOL_OPTIONS"] = jopts
    # (TLC unpacks its standard modules into java.io.tmpdir on every start: keep that inside the work directory,
    # which is removed after the run, instead of littering /tmp)
    jtmp = os.path.join(workdir, "jtmp")
    os.makedirs(jtmp, exist_ok=True)
    cmd = ["java", "-DTLA-Library=" + os.path.join(ROOT, "spec", "common"), "-Djava.io.tmpdir=" + jtmp]
    if heap:
        cmd += ["-Xmx" + heap]
    cmd += ["-XX:+UseParallelGC", "-cp", TLA_JAR + ":/opt/veriftools/tla/CommunityModules-deps.jar",
            "tlc2.TLC", "-workers", str(workers), "-metadir", meta, "-cleanup", "-noGenerateSpecTE",
            "-config", cfg_path] + list(extra) + [module_path]
    rc, out, dt = run(cmd, cwd=os.path.dirname(module_path), env=e, timeout=timeout)
    shutil.rmtree(meta, ignore_errors=True)
    return rc, out, dt


RE_STATES = re.compile(r"(\d+) states generated, (\d+) distinct states found, (\d+) states left on queue")
RE_VIOL = re.compile(r"Error: (?:Invariant|Action property) (\S+) is violated")
RE_VIOL2 = re.compile(r"Error: (?:Invariant|Action property) (\S+) .*violated")
RE_COV = re.compile(r"^<(\w+) line \d+, col \d+ to line \d+, col \d+ of module (\w+)>: (\d+):(\d+)", re.M)
RE_L = re.compile(r"l \|?-?>?=? ?(\d+)")


def parse_mc(out):
    res = {"states": 0, "distinct": 0, "violated": None, "finished": False, "actions": {}, "depth": None}
    for m in RE_STATES.finditer(out):
        res["states"], res["distinct"], left = int(m.group(1)), int(m.group(2)), int(m.group(3))
        res["finished"] = left == 0
    m = RE_VIOL.search(out) or RE_VIOL2.search(out)
    if m:
        res["violated"] = m.group(1)
    for m in RE_COV.finditer(out):
        name, mod, distinct, gen = m.group(1), m.group(2), int(m.group(3)), int(m.group(4))
        if name not in ("Init",):
            res["actions"][name] = {"distinct": distinct, "generated": gen}
    m = re.search(r"depth of the complete state graph search is (\d+)", out)
    if m:
        res["depth"] = int(m.group(1))
    res["error"] = None
    if "Error:" in out and not res["violated"]:
        em = re.search(r"Error: (.*)", out)
        res["error"] = em.group(1) if em else "unknown TLC error"
    return res


def kf_consts(sysd, announce):
    """TLA+ constants that switch the exemption predicates of known findings on (status known) or off."""
    kf = sysd.get("kf")
    if not kf:
        return ""
    known = set()
    p = os.path.join(ROOT, "known_findings.json")
    if os.path.exists(p):
        for f in json.load(open(p)).get("findings", []):
            if f.get("status") == "known":
                known.add(f["key"])
    txt = "".join("  %s = %s\n" % (const, "TRUE" if key in known else "FALSE") for key, const in sorted(kf.items()))
    return txt + "  Announce = %s\n" % ("TRUE" if announce else "FALSE")


def model_check(sysd, prop, tier, workdir, workers, timeout):
    """Exhaustive TLC run of the reference machine with the property's formulas."""
    results = []
    for mc in prop.get("mc", sysd["mc"])[tier]:
        consts = open(os.path.join(ROOT, sysd["dir"], mc["consts"])).read() + kf_consts(sysd, False)
        cfg = os.path.join(workdir, "mc-%s.cfg" % mc["consts"].replace(".consts", ""))
        write_cfg(cfg, mc.get("spec", "Spec"), consts, invariants=prop.get("mc_inv", []), properties=prop.get("mc_props", []),
                  view=mc.get("view"), symmetry=mc.get("symmetry"), constraint=mc.get("constraint"))
        module = os.path.join(ROOT, sysd["dir"], mc["module"] + ".tla")
        rc, out, dt = tlc(module, cfg, workdir, workers=workers, extra=["-coverage", "1"] + mc.get("extra", []),
                          timeout=timeout, heap=mc.get("heap", "12g"))
        with open(os.path.join(workdir, "mc-%s.out" % mc["consts"]), "w") as f:
            f.write(out)
        r = parse_mc(out)
        r["wall_s"] = round(dt, 1)
        r["config"] = mc["consts"]
        r["rc"] = rc
        if rc == 124:
            r["error"] = "timeout after %ss" % timeout
        results.append(r)
    return results


def generate_schedules(sysd, gen, seed, workdir, timeout=600):
    """Behaviours of the specification as schedules (TLC -simulate, one JSON line per behaviour)."""
    consts = open(os.path.join(ROOT, sysd["dir"], gen["consts"])).read() + kf_consts(sysd, False)
    cfg = os.path.join(workdir, "gen-%s%s.cfg" % (gen["consts"].replace(".consts", ""), "-" + gen["view"] if gen.get("view") else ""))
    bfs = gen.get("mode") == "bfs"
    module = os.path.join(ROOT, sysd["dir"], gen["module"] + ".tla")
    if bfs:
        # sampled breadth-first generation: one schedule (the BFS path) per sampled distinct state
        consts = re.sub(r"SampleK = \d+", "SampleK = %d" % gen["sample"], consts)
        write_cfg(cfg, gen.get("spec", "Spec"), consts, invariants=["EmitSampled"], view=gen.get("view", "View"))
        rc, out, dt = tlc(module, cfg, workdir, workers=4, extra=["-seed", str(seed)], timeout=timeout, heap="6g")
    else:
        write_cfg(cfg, gen.get("spec", "Spec"), consts, invariants=[gen.get("emit", "EmitSchedule")])
        extra = ["-simulate", "num=%d" % gen["num"], "-depth", str(gen["depth"]), "-seed", str(seed)]
        rc, out, dt = tlc(module, cfg, workdir, workers=1, extra=extra, timeout=timeout, heap="4g")
    scheds, seen = [], set()
    for line in out.splitlines():
        if line.startswith('<<"SCHED"'):
            m = re.match(r'<<"SCHED", (".*")>>$', line.strip())
            if not m:
                continue
            s = json.loads(json.loads(m.group(1)))
            key = json.dumps(s.get("steps", [])[:None if bfs else -1], sort_keys=True) + json.dumps(s.get("cfg"), sort_keys=True)
            if key in seen:
                continue
            seen.add(key)
            scheds.append(s)
    if not scheds:
        with open(os.path.join(workdir, "gen.out"), "w") as f:
            f.write(out)
        raise ToolError("schedule generation produced nothing (see %s/gen.out)" % workdir)
    path = os.path.join(workdir, "sched-%s%s.ndjson" % (gen["consts"].replace(".consts", ""), "-" + gen["view"] if gen.get("view") else ""))
    with open(path, "w") as f:
        for s in scheds:
            f.write(json.dumps(s) + "\n")
    return path, len(scheds), dt


def run_harness(sysname, out_path, stats_path, schedules=None, random=0, length=40, seed=1, mode=None, timeout=3000):
    cmd = [CWV, sysname, "--out", out_path, "--stats", stats_path, "--seed", str(seed), "--fixtures", os.path.join(ROOT, "fixtures")]
    if schedules:
        cmd += ["--schedules", schedules]
    if random:
        cmd += ["--random", str(random), "--len", str(length)]
    if mode:
        cmd += ["--mode", mode]
    rc, out, dt = run(cmd, timeout=timeout)
    if rc != 0:
        log(out[-3000:])
        raise ToolError("harness run failed (rc=%s)" % rc)
    return json.load(open(stats_path)), dt


def split_trace(path, workdir, max_events, tag):
    """Split an ndjson trace at reset boundaries into chunks of at most ~max_events events."""
    chunks, cur, n, idx = [], None, 0, 0
    f_out = None
    with open(path) as f:
        for line in f:
            is_reset = '"act":"reset"' in line[:80]
            if f_out is None or (is_reset and n >= max_events):
                if f_out:
                    f_out.close()
                idx += 1
                cur = os.path.join(workdir, "%s-chunk%03d.ndjson" % (tag, idx))
                chunks.append(cur)
                f_out = open(cur, "w")
                n = 0
            f_out.write(line)
            n += 1
    if f_out:
        f_out.close()
    return chunks


def validate_chunk(args):
    module, cfg, chunk, workdir, timeout = args
    env = {"TRACE": chunk}
    rc, out, dt = tlc(module, cfg, workdir + "/" + os.path.basename(chunk) + ".d", workers=1, env=env, timeout=timeout,
                      java_opts="-Xss1g -Dtlc2.tool.queue.IStateQueue=StateDeque", heap="3g")
    return chunk, rc, out, dt


def validate_trace(sysd, prop, trace_paths, workdir, timeout=1200, par=6, chunk_events=20000):
    """TLC replays the recorded events and evaluates the property's formulas at every step."""
    tr = sysd["trace"]
    cfg = os.path.join(workdir, "trace.cfg")
    write_cfg(cfg, tr.get("spec", "TSpec"), tr["consts"] + kf_consts(sysd, True), invariants=["NoAnomaly"] + prop.get("tr_inv", []),
              properties=prop.get("tr_props", []), postcondition="Accepted", alias="TraceAlias")
    module = os.path.join(ROOT, sysd["dir"], tr["module"] + ".tla")
    chunks = []
    for i, p in enumerate(trace_paths):
        chunks += split_trace(p, workdir, chunk_events, "t%d" % i)
    jobs = []
    for c in chunks:
        os.makedirs(workdir + "/" + os.path.basename(c) + ".d", exist_ok=True)
        jobs.append((module, cfg, c, workdir, timeout))
    results = []
    with concurrent.futures.ThreadPoolExecutor(max_workers=par) as ex:
        for chunk, rc, out, dt in ex.map(validate_chunk, jobs):
            shutil.rmtree(workdir + "/" + os.path.basename(chunk) + ".d", ignore_errors=True)
            r = {"chunk": chunk, "rc": rc, "wall_s": dt, "violated": None, "at": None, "error": None, "events": 0, "kf": []}
            m = RE_STATES.search(out)
            if m:
                r["events"] = int(m.group(2)) - 1
            v = RE_VIOL.search(out) or RE_VIOL2.search(out)
            for km in re.finditer(r'"KNOWN-FINDING\|([^|"]*)\|([^"]*)"', out):
                r["kf"].append((km.group(1), km.group(2)))
            if v:
                r["violated"] = v.group(1)
                ls = [int(x) for x in re.findall(r"l \|-> (\d+)", out)] + [int(x) for x in re.findall(r"^/\\ l = (\d+)", out, re.M)]
                r["at"] = max(ls) if ls else None
            elif "TRACE_NOT_CONSUMED" in out or "Postcondition" in out:
                r["error"] = "trace not consumed: " + "; ".join(l for l in out.splitlines() if "TRACE_NOT_CONSUMED" in l or l.startswith("Error"))[:600]
            elif rc != 0 or "Error:" in out:
                em = [l for l in out.splitlines() if l.startswith("Error") or "Exception" in l]
                r["error"] = ("TLC rc=%s: " % rc) + " | ".join(em[:6])[:800]
            if r["violated"] or r["error"]:
                with open(chunk + ".tlcout", "w") as f:
                    f.write(out)
            results.append(r)
    return results


# ----------------------------------------------------------------------------------- Apalache
def apalache_one(args):
    module, inv, workdir, timeout = args
    outdir = os.path.join(workdir, "apa-" + inv)
    rc, out, dt = run(["apalache-mc", "check", "--length=0", "--inv=" + inv, "--out-dir=" + outdir, os.path.basename(module)],
                      cwd=os.path.dirname(module), timeout=timeout)
    shutil.rmtree(outdir, ignore_errors=True)
    if "The outcome is: NoError" in out:
        res = "proved"
    elif "The outcome is: Error" in out:
        res = "refuted"
    elif rc == 124:
        res = "timeout"
    else:
        res = "failed"
    return inv, res, round(dt, 1)


def apalache(module, invs, workdir, timeout=300, par=4):
    """Unbounded-integer obligations (SMT). Returns {inv: (result, seconds)}."""
    with concurrent.futures.ThreadPoolExecutor(max_workers=par) as ex:
        return {inv: (res, dt) for inv, res, dt in ex.map(apalache_one, [(module, i, workdir, timeout) for i in invs])}


# ----------------------------------------------------------------------------------- replay files
def cut_run(chunk_path, at, dest):
    """Cut the run (reset .. next reset) containing event number `at` (1-based) out of a chunk."""
    lines = open(chunk_path).read().splitlines()
    at = min(max(at or 1, 1), len(lines))
    start = at - 1
    while start > 0 and '"act":"reset"' not in lines[start][:80]:
        start -= 1
    end = at
    while end < len(lines) and '"act":"reset"' not in lines[end][:80]:
        end += 1
    with open(dest, "w") as f:
        f.write("\n".join(lines[start:end]) + "\n")
    return at - start, end - start


def schedule_of_run(path):
    evs = [json.loads(l) for l in open(path) if l.strip()]
    cfg = evs[0]["cfg"]
    steps = [{"act": e["act"], "by": e.get("by", "env"), "args": e.get("args", {})} for e in evs[1:] if e["act"] not in ("migrate0",)]
    return {"cfg": cfg, "steps": steps}


def sample_events(trace_path, k=3):
    out = []
    try:
        with open(trace_path) as f:
            for i, line in enumerate(f):
                if i in (0, 5, 17) or (i > 20 and len(out) < k and '"ok":true' in line and '"act":"advance"' not in line):
                    e = json.loads(line)
                    e.pop("err", None)
                    out.append(e)
                if len(out) >= k:
                    break
    except Exception:
        pass
    return out


# ----------------------------------------------------------------------------------- evidence
def write_evidence(pid, tier, seed, coverage, wall, violations, assumptions, level="model_checking"):
    os.makedirs(EVID, exist_ok=True)
    ev = {"property_id": pid, "tier": tier, "seed": seed, "level": level, "coverage": coverage,
          "assumptions": assumptions, "wall_s": round(wall, 1), "violations": violations}
    with open(os.path.join(EVID, pid + ".json"), "w") as f:
        json.dump(ev, f, indent=1)
