"""Texts for MANIFEST.json, per property."""
TV = ("trace validation: the harness runs the real contract inside cw-multi-test on TLC-generated schedules and seeded "
      "state-aware random runs, records the projected state after every call, and TLC evaluates the property's invariants "
      "and action properties on every recorded step")
NOTE = ("Bounded: TLC exhaustive only for the stated small constants; conformance only on the executed schedules. Trusted: "
        "cw-multi-test as chain substrate, external crates, point queries as faithful projection, TLC itself.")

def mc(text):
    return "TLC exhaustive model checking of the reference machine in %s with the property's formulas, plus " % text + TV

META = {
    "C01": {"text": mc("spec/cw20/Cw20.tla (all 11 execute entry points, clock, legacy start states; 3 addresses, amounts 0..2, u128 bound 3)")
                    + ". Formulas: supply = sum over listed accounts (invariant), supply moves only by mint/burn by exactly the amount with one balance, moves keep supply, failing calls roll back, instantiate clause.",
            "design_ref": "DESIGN.md 6/C01", "note": NOTE, "technique": "TLA+ spec + TLC model checking + TLC trace validation of real executions"},
    "C02": {"text": mc("spec/cw20/Cw20.tla") + ". Formulas: debit authorised (holder or draw), draw guard (unexpired, sufficient), draw exact, move exact, allowance writers, increase exact, decrease saturating, history invariant allowance <= granted-revoked-drawn inferred by TLC from call arguments, receive notification exact.",
            "design_ref": "DESIGN.md 6/C02", "note": NOTE, "technique": "TLA+ spec + TLC model checking + TLC trace validation of real executions"},
    "C13": {"text": mc("spec/cw20/Cw20.tla") + ". Formulas: supply <= cap (invariant), supply rises only by the current minter's mint, minter record changes only by the current minter's update_minter keeping the cap, renounce is permanent, instantiate honours minter/cap.",
            "design_ref": "DESIGN.md 6/C13", "note": NOTE, "technique": "TLA+ spec + TLC model checking + TLC trace validation of real executions"},
    "C19": {"text": mc("spec/cw20/Cw20.tla (owner listing, spender listing and point view as three variables; pre-0.14 start states)") + ". Formulas: the three views agree (invariant, from the migrate event on), migrate changes nothing but the spender listing.",
            "design_ref": "DESIGN.md 6/C19", "note": NOTE, "technique": "TLA+ spec + TLC model checking + TLC trace validation of real executions"},
    "C04": {"text": "TLC exhaustive check of the transcribed decision function (spec/cw3/Cw3Threshold.tla) against the documented rule with explicit quantification over all completions of the outstanding votes, on a complete small domain (all totals <= MaxT, all splits, all count weights, a percentage/quorum grid, expired or not); plus trace validation: the harness calls the real cw3::Proposal::{is_passed,is_rejected,current_status} on the same complete domain and on boundary/random inputs at u64 magnitudes (operands logged as limbs), and TLC checks every recorded result (BigNat arithmetic for the large ones: exact for <= 9 decimals, within one vote and never stricter for 18).",
            "design_ref": "DESIGN.md 6/C04", "note": NOTE, "technique": "TLA+ transcription + TLC complete small domain + TLC (BigNat) validation of recorded real-function results"},
}

NOT_APPLICABLE = {
    "C03": "check under construction in this session (cw3 specification not yet bound); will be claimed when its check exists",
    "C05": "check under construction in this session",
    "C06": "check under construction in this session", "C07": "check under construction in this session",
    "C08": "check under construction in this session", "C09": "check under construction in this session",
    "C10": "check under construction in this session", "C11": "check under construction in this session",
    "C12": "check under construction in this session", "C14": "check under construction in this session",
    "C15": "check under construction in this session", "C16": "check under construction in this session",
    "C17": "check under construction in this session", "C18": "check under construction in this session",
    "C20": "check under construction in this session",
}

NOTES = ("All checks: ./check <ID> --tier quick|thorough. VERIF_SEED seeds TLC simulation and the harness's random driver. "
         "Exit 0 held / 1 VIOLATION / 2 tool error. Scratch under /verif/work (removed on success), replays under /verif/replays.")
