"""Texts for MANIFEST.json, per property."""
TV = ("trace validation: the harness runs the real contract inside cw-multi-test on TLC-generated schedules and seeded "
      "state-aware random runs, records the projected state after every call, and TLC evaluates the property's invariants "
      "and action properties on every recorded step")
NOTE = ("Bounded: TLC exhaustive only for the stated small constants; conformance only on the executed schedules. Trusted: "
        "cw-multi-test as chain substrate, external crates, point queries as faithful projection, TLC itself.")

def mc(text):
    return "TLC exhaustive model checking of the reference machine in %s with the property's formulas, plus " % text + TV

META = {
    "C01": {"text": mc("spec/cw20/Cw20.tla (all 11 execute entry points, clock, legacy start states; 3 addresses, amounts 0..2, u128 bound 3)")
                    + ". Formulas: supply = sum over listed accounts (invariant), supply moves only by mint/burn by exactly the amount with one balance, moves keep supply, failing calls roll back, instantiate clause.",
            "design_ref": "DESIGN.md 6/C01", "note": NOTE, "technique": "TLA+ spec + TLC model checking + TLC trace validation of real executions"},
    "C02": {"text": mc("spec/cw20/Cw20.tla") + ". Formulas: debit authorised (holder or draw), draw guard (unexpired, sufficient), draw exact, move exact, allowance writers, increase exact, decrease saturating, history invariant allowance <= granted-revoked-drawn inferred by TLC from call arguments, receive notification exact.",
            "design_ref": "DESIGN.md 6/C02", "note": NOTE, "technique": "TLA+ spec + TLC model checking + TLC trace validation of real executions"},
    "C13": {"text": mc("spec/cw20/Cw20.tla") + ". Formulas: supply <= cap (invariant), supply rises only by the current minter's mint, minter record changes only by the current minter's update_minter keeping the cap, renounce is permanent, instantiate honours minter/cap.",
            "design_ref": "DESIGN.md 6/C13", "note": NOTE, "technique": "TLA+ spec + TLC model checking + TLC trace validation of real executions"},
    "C19": {"text": mc("spec/cw20/Cw20.tla (owner listing, spender listing and point view as three variables; pre-0.14 start states)") + ". Formulas: the three views agree (invariant, from the migrate event on), migrate changes nothing but the spender listing.",
            "design_ref": "DESIGN.md 6/C19", "note": NOTE, "technique": "TLA+ spec + TLC model checking + TLC trace validation of real executions"},
    "C04": {"text": "TLC exhaustive check of the transcribed decision function (spec/cw3/Cw3Threshold.tla) against the documented rule with explicit quantification over all completions of the outstanding votes, on a complete small domain (all totals <= MaxT, all splits, all count weights, a percentage/quorum grid, expired or not); plus trace validation: the harness calls the real cw3::Proposal::{is_passed,is_rejected,current_status} on the same complete domain and on boundary/random inputs at u64 magnitudes (operands logged as limbs), and TLC checks every recorded result (BigNat arithmetic for the large ones: exact for <= 9 decimals, within one vote and never stricter for 18).",
            "design_ref": "DESIGN.md 6/C04", "note": NOTE, "technique": "TLA+ transcription + TLC complete small domain + TLC (BigNat) validation of recorded real-function results"},
    "C03": {"text": mc("spec/cw3/Cw3.tla + Cw3MC.tla (both multisig flavours, stored vs reported status, clock, group updates, deposits; 3 addresses, weights -1..2, 1-2 concurrent proposals)")
                    + ". Formulas: reported status = outcome the threshold rules define for the reported ballots/total/expiry (invariant, closed forms model-checked against the quantification over completions), passed/executed implies yes weight, Execute and Close admitted only in the right outcome.",
            "design_ref": "DESIGN.md 6/C03", "note": NOTE, "technique": "TLA+ spec + TLC model checking + TLC trace validation of real executions"},
    "C05": {"text": mc("spec/cw3/Cw3.tla + Cw3MC.tla") + ". Formulas: at most one successful Execute per proposal (history invariant), proposal messages leave the multisig only in a successful Execute of that proposal exactly as proposed, executor rule, failed/re-entrant calls change nothing, status monotone, ids increase, content immutable, expiry bounded by the voting period, Close only expired and not passed, Vote emits nothing. Fault alphabet: failing bank dispatch, a target with a failure switch, re-entrant Execute/Close/Vote.",
            "design_ref": "DESIGN.md 6/C05", "note": NOTE, "technique": "TLA+ spec + TLC model checking + TLC trace validation of real executions"},
    "C06": {"text": mc("spec/cw3/Cw3.tla + Cw3MC.tla (membership at the start of each block as spec state; group updates before, in the same block as, and after propose/vote)") + ". Formulas: one immutable ballot per address, vote window, ballot weight = snapshot weight >= 1 (proposer may be 0), total = sum of the snapshot and ballots never outweigh it, group's own at_height answer equals the inferred snapshot, later changes irrelevant, fixed voter table static with declared total = its sum. Known finding D3 exempted narrowly (same-block change before Propose).",
            "design_ref": "DESIGN.md 6/C06", "note": NOTE, "technique": "TLA+ spec + TLC model checking + TLC trace validation of real executions"},
    "C15": {"text": mc("spec/cw3/Cw3.tla + Cw3MC.tla (native and cw20 deposits, refund flag, deposit pool)") + ". Formulas: Propose takes exactly the configured amount of the configured token (funds / cw20 pull), refunds only to the proposer at Execute or (flag) Close, at most once (held history), pool = deposits held, no other balance moves; must-succeed clause: Close of an expired failed proposal with refunds enabled succeeds (ENABLED in MC, drain phase on the real code). Known finding D6 exempted narrowly (stored-Rejected proposals).",
            "design_ref": "DESIGN.md 6/C15", "note": NOTE, "technique": "TLA+ spec + TLC model checking + TLC trace validation of real executions"},
    "C11": {"text": mc("spec/ics20/Ics20.tla + Ics20MC.tla (channel books, real holdings, in-flight packets, token failure switch, arbitrary counterparty: every voucher shape, amount 0..above outstanding, ack/timeout in any order)")
                    + ". Formulas: holdings >= sum of outstanding over channels (invariant), paid out <= escrowed per channel and denomination (history inferred from observed holdings), holdings move only by an accepted transfer or a handled packet by exactly the amount, malformed / foreign / over-sized packets release nothing.",
            "design_ref": "DESIGN.md 6/C11", "note": NOTE, "technique": "TLA+ spec + TLC model checking + TLC trace validation of real executions"},
    "C12": {"text": mc("spec/ics20/Ics20.tla + Ics20MC.tla, start states fresh and migrated-from-v1 with tokens outstanding") + ". Formulas: outstanding = sent - failed - redeemed (history invariant), success ack iff paid and reduced exactly, error ack changes nothing, receive never aborts, exactly one ICS-20 packet per accepted transfer with amount/denom/sender/receiver/memo/timeout and amount <= 2^64-1, failure acks and timeouts refund.",
            "design_ref": "DESIGN.md 6/C12", "note": NOTE, "technique": "TLA+ spec + TLC model checking + TLC trace validation of real executions"},
    "C18": {"text": mc("spec/ics20/Ics20.tla + Ics20MC.tla (governance calls by gov, former gov, strangers; migrate)") + ". Formulas: allow list only loosens (unlimited stays unlimited, u64::MAX distinguished from unlimited), only the governance address allows / hands over, default gas limit only set by migrate, cw20 transfers gated by allow list or default limit, every payout sub-message carries the token's limit or else the default.",
            "design_ref": "DESIGN.md 6/C18", "note": NOTE, "technique": "TLA+ spec + TLC model checking + TLC trace validation of real executions"},
    "C09": {"text": mc("spec/cw4/Cw4.tla + Cw4MC.tla (both group contracts; membership at the start of every block as spec state)")
                    + ". Formulas: total = sum of listed members (invariant, listing compared with point queries), every recorded Member{at_height}/TotalWeight{at_height} answer (heights before instantiation, every change height, current, future) equals the block-start history TLC infers from the calls, raw cw4 keys (and the Cw4Contract helpers) equal the smart queries.",
            "design_ref": "DESIGN.md 6/C09", "note": NOTE, "technique": "TLA+ spec + TLC model checking + TLC trace validation of real executions"},
    "C10": {"text": mc("spec/cw4/Cw4.tla + Cw4MC.tla (stake flavour: native and cw20 staking token, tokens_per_weight, min_bond, height/time unbonding periods)")
                    + ". Formulas: holdings = stakes + unreleased claims (invariant), member iff stake >= max(min_bond,1), weight = stake div tokens_per_weight and within u64 (scale abstraction reaches the wrap region), bond/unbond/claim exact incl. only the configured token, claim pays exactly the matured claims and fails when there are none.",
            "design_ref": "DESIGN.md 6/C10", "note": NOTE, "technique": "TLA+ spec + TLC model checking + TLC trace validation of real executions"},
    "C14": {"text": mc("spec/cw4/Cw4.tla + Cw4MC.tla (admin hand-overs, 0-2 hooks, overlapping add/remove lists)")
                    + ". Formulas: admin / hooks / membership writers, frozen forever once the admin is cleared, UpdateMembers applies add then remove exactly, every registered hook gets exactly one identical notification whose diffs replay from the old to the new membership with truthful previous weights and name only addresses the call touched; failing calls notify nobody.",
            "design_ref": "DESIGN.md 6/C14", "note": NOTE, "technique": "TLA+ spec + TLC model checking + TLC trace validation of real executions"},
    "C20": {"text": "TLC exhaustive check of the page rule (spec/paging/Paging.tla: exclusive cursor, take(min(limit or 10, 30))) for all sizes 0..35, both directions, all limits and all cursors: walks are complete/duplicate-free/ordered, resuming from any cursor is exact, page sizes bounded; plus trace validation: the harness builds states with 0..45 items (with deletions, filtered expired entries, non-member stakers) for all 16 real listings, records every page request (limits absent/0/1/../100; cursors from previous pages, existing keys, keys between/before/after) and every walk in rank space, and TLC checks each recorded page equals the rule's page of the true item set.",
            "design_ref": "DESIGN.md 6/C20", "note": NOTE, "technique": "TLA+ page rule + TLC exhaustive small domain + TLC validation of recorded pages of all real listings"},
}

NOT_APPLICABLE = {
    

 "C07": "check under construction in this session",
    "C08": "check under construction in this session", "C09": "check under construction in this session",
    "C11": "check under construction in this session",
 "C16": "check under construction in this session",
    "C17": "check under construction in this session", "C18": "check under construction in this session",
}

NOTES = ("All checks: ./check <ID> --tier quick|thorough. VERIF_SEED seeds TLC simulation and the harness's random driver. "
         "Exit 0 held / 1 VIOLATION / 2 tool error. Scratch under /verif/work (removed on success), replays under /verif/replays.")
