//! The wasm build of a contract exports whatever entry points its source defines; the native harness has
//! to name them.  This script looks which of the optional entry points (`reply`, `sudo`, `migrate`) each
//! contract's `contract.rs` defines in /repo's working tree and tells the harness through cfg flags, so
//! that an entry point added to a contract is wired into cw-multi-test exactly like on chain.
use std::fs;

fn main() {
    let repo = std::env::var("VERIF_REPO").unwrap_or_else(|_| "/repo".to_string());
    println!("cargo:rerun-if-env-changed=VERIF_REPO");
    for c in ["cw1-whitelist", "cw1-subkeys", "cw20-base", "cw3-fixed-multisig", "cw3-flex-multisig", "cw4-group", "cw4-stake"] {
        let path = format!("{repo}/contracts/{c}/src/contract.rs");
        println!("cargo:rerun-if-changed={path}");
        let src = fs::read_to_string(&path).unwrap_or_default();
        let id = c.replace('-', "_");
        for ep in ["reply", "sudo", "migrate"] {
            println!("cargo:rustc-check-cfg=cfg(has_{ep}_{id})");
            if src.contains(&format!("pub fn {ep}(")) || src.contains(&format!("pub fn {ep}<")) {
                println!("cargo:rustc-cfg=has_{ep}_{id}");
            }
        }
    }
}
