//! cw3-fixed-multisig and cw3-flex-multisig (+ cw4-group, deposit token): executes schedules /
//! random runs on the real contracts and records the projected state (properties C03 C05 C06 C15).
use crate::common::*;
use cosmwasm_std::{
    coins, from_json, to_json_binary, Addr, BankMsg, Binary, Coin, CosmosMsg, Decimal, Empty, Uint128, WasmMsg,
};
use cw3::{ProposalResponse, Status, Vote, VoteListResponse, VoterResponse};
use cw4::{Member, MemberResponse, TotalWeightResponse};
use cw_multi_test::{Contract, Executor};
use cw_utils::{Duration, Threshold, ThresholdResponse};
use serde_json::{json, Value};

pub const USERS: [&str; 3] = ["a1", "a2", "a3"];
const DEP: &str = "udep";
const OTHER: &str = "uother";

fn fixed_code() -> Box<dyn Contract<Empty>> {
    Recorded::new(
        "cw3",
        crate::contract_code!(cw3_fixed_multisig, has_reply_cw3_fixed_multisig, has_sudo_cw3_fixed_multisig, has_migrate_cw3_fixed_multisig),
    )
}
fn flex_code() -> Box<dyn Contract<Empty>> {
    Recorded::new(
        "cw3",
        crate::contract_code!(cw3_flex_multisig, has_reply_cw3_flex_multisig, has_sudo_cw3_flex_multisig, has_migrate_cw3_flex_multisig),
    )
}
fn group_code() -> Box<dyn Contract<Empty>> {
    Recorded::new(
        "group",
        crate::contract_code!(cw4_group, has_reply_cw4_group, has_sudo_cw4_group, has_migrate_cw4_group),
    )
}

/// harness-only target of proposal messages: fails while its switch (toggled by sudo) is on
pub struct Flaky;
impl Contract<Empty> for Flaky {
    fn execute(&self, d: cosmwasm_std::DepsMut, _e: cosmwasm_std::Env, _i: cosmwasm_std::MessageInfo, _m: Vec<u8>) -> AnyResult<cosmwasm_std::Response> {
        if d.storage.get(b"fail").is_some() {
            anyhow::bail!("flaky target is switched to fail");
        }
        Ok(cosmwasm_std::Response::new())
    }
    fn instantiate(&self, _d: cosmwasm_std::DepsMut, _e: cosmwasm_std::Env, _i: cosmwasm_std::MessageInfo, _m: Vec<u8>) -> AnyResult<cosmwasm_std::Response> {
        Ok(cosmwasm_std::Response::new())
    }
    fn query(&self, _d: cosmwasm_std::Deps, _e: cosmwasm_std::Env, _m: Vec<u8>) -> AnyResult<Binary> {
        Ok(Binary::default())
    }
    fn sudo(&self, d: cosmwasm_std::DepsMut, _e: cosmwasm_std::Env, m: Vec<u8>) -> AnyResult<cosmwasm_std::Response> {
        let v: Value = from_json(&m)?;
        if v["on"].as_bool().unwrap_or(false) {
            d.storage.set(b"fail", b"1");
        } else {
            d.storage.remove(b"fail");
        }
        Ok(cosmwasm_std::Response::new())
    }
    fn reply(&self, _d: cosmwasm_std::DepsMut, _e: cosmwasm_std::Env, _m: cosmwasm_std::Reply) -> AnyResult<cosmwasm_std::Response> {
        Ok(cosmwasm_std::Response::new())
    }
    fn migrate(&self, _d: cosmwasm_std::DepsMut, _e: cosmwasm_std::Env, _m: Vec<u8>) -> AnyResult<cosmwasm_std::Response> {
        Ok(cosmwasm_std::Response::new())
    }
}

pub struct Run {
    pub w: World,
    pub flex: bool,
    pub ms: Addr,
    pub group: Option<Addr>,
    pub dtok: Option<Addr>,
    pub dep_kind: String,
    pub dep_amt: u64,
    pub nonce: u64,
    pub flaky_on: bool,
    pub dtok_fails: bool,
}

/// percentages travel in units of 10^-7 (PDEN of the trace specification), fine enough to put
/// weight * percentage a hair above an integer for the small weights used here
pub const PDEN7: u64 = 10_000_000;
fn threshold_of(t: &Value) -> Threshold {
    let d = |k: &str| Decimal::from_ratio(n(t, k) as u128, PDEN7 as u128);
    match s(t, "kind").as_str() {
        "count" => Threshold::AbsoluteCount { weight: n(t, "weight") },
        "pct" => Threshold::AbsolutePercentage { percentage: d("p") },
        _ => Threshold::ThresholdQuorum { threshold: d("p"), quorum: d("q") },
    }
}
fn permille(d: &Decimal) -> i64 {
    let a = d.atomics().u128();
    let unit = 1_000_000_000_000_000_000u128 / PDEN7 as u128;
    if a % unit == 0 { (a / unit) as i64 } else { -9 }
}
/// configurations give percentages in units of 1/pden (1000 when they come from the TLC models)
fn thr_to_pden7(cfg: &Value) -> Value {
    let pden = cfg.get("pden").and_then(|x| x.as_u64()).unwrap_or(1000);
    let mut t = cfg["thr"].clone();
    for k in ["p", "q"] {
        let v = t[k].as_u64().unwrap_or(0);
        t[k] = json!(v * (PDEN7 / pden));
    }
    t
}
fn thr_resp_to_model(t: &ThresholdResponse) -> Value {
    match t {
        ThresholdResponse::AbsoluteCount { weight, total_weight } => json!({"kind":"count","weight":weight,"p":0,"q":0,"total":total_weight}),
        ThresholdResponse::AbsolutePercentage { percentage, total_weight } => json!({"kind":"pct","weight":0,"p":permille(percentage),"q":0,"total":total_weight}),
        ThresholdResponse::ThresholdQuorum { threshold, quorum, total_weight } => json!({"kind":"quorum","weight":0,"p":permille(threshold),"q":permille(quorum),"total":total_weight}),
    }
}
fn vote_of(v: &str) -> Vote {
    match v {
        "yes" => Vote::Yes,
        "no" => Vote::No,
        "abstain" => Vote::Abstain,
        _ => Vote::Veto,
    }
}
fn vote_name(v: &Vote) -> &'static str {
    match v {
        Vote::Yes => "yes",
        Vote::No => "no",
        Vote::Abstain => "abstain",
        Vote::Veto => "veto",
    }
}

impl Run {
    pub fn start(cfg0: &Value, run_no: u64, out: &mut Out) -> Option<Run> {
        let mut cfg1 = cfg0.clone();
        cfg1["thr"] = thr_to_pden7(cfg0);
        cfg1["pden"] = json!(PDEN7);
        let cfg = &cfg1;
        let flex = s(cfg, "flavour") == "flex";
        let mut w = World::new();
        // the group and the tokens exist since an earlier block than the run's origin
        w.app.update_block(|b| b.height -= 5);
        for u in USERS {
            w.user(u);
        }
        let creator = w.user("creator");
        let ga = w.user("ga");
        let fixed_id = w.app.store_code(fixed_code());
        let flex_id = w.app.store_code(flex_code());
        let group_id = w.app.store_code(group_code());
        let tok_id = w.app.store_code(crate::ics20::FlakyToken::boxed());
        let sink_id = w.app.store_code(Box::new(crate::cw20::Sink));
        let flaky_id = w.app.store_code(Box::new(Flaky));
        let sink = w.app.instantiate_contract(sink_id, creator.clone(), &Empty {}, &[], "sink", None).unwrap();
        w.register("sink", &sink);
        let flaky = w.app.instantiate_contract(flaky_id, creator.clone(), &Empty {}, &[], "flaky", None).unwrap();
        w.register("flaky", &flaky);
        // bank funds
        let users: Vec<Addr> = USERS.iter().map(|u| w.addr(u)).collect();
        w.app.init_modules(|router, _, storage| {
            for u in &users {
                router.bank.init_balance(storage, u, vec![Coin::new(100u128, DEP), Coin::new(100u128, OTHER)]).unwrap();
            }
        });
        // deposit token
        let dep = cfg.get("dep").cloned().unwrap_or(json!({"kind":"none","amt":0,"refund":false}));
        let dep_kind = s(&dep, "kind");
        let dep_amt = n(&dep, "amt");
        let tmsg = cw20_base::msg::InstantiateMsg {
            name: "Deposit".into(),
            symbol: "DEP".into(),
            decimals: 6,
            initial_balances: USERS.iter().map(|u| cw20::Cw20Coin { address: w.addr(u).to_string(), amount: Uint128::new(100) }).collect(),
            mint: None,
            marketing: None,
        };
        let dtok = w.app.instantiate_contract(tok_id, creator.clone(), &tmsg, &[], "dtok", None).unwrap();
        w.register("dtok", &dtok);
        let period = if s(&cfg["period"], "k") == "h" { Duration::Height(n(&cfg["period"], "v")) } else { Duration::Time(ticks_to_secs(n(&cfg["period"], "v"))) };
        let voters = cfg["voters"].as_array().unwrap().clone();
        let mut group = None;
        let r;
        if flex {
            let mut members: Vec<Member> = voters.iter().map(|v| Member { addr: w.addr(&s(v, "a")).to_string(), weight: n(v, "w") }).collect();
            if cfg.get("crowd").and_then(|x| x.as_bool()).unwrap_or(false) {
                // 40 weightless members whose addresses sort first: the group is larger than any page or batch size of
                // the code; totals, weights and thresholds are still those of the tracked members
                let mut cands: Vec<Addr> = (0..400).map(|i| w.app.api().addr_make(&format!("crowd-candidate-{i}"))).collect();
                cands.sort();
                for (j, a) in cands.into_iter().take(40).enumerate() {
                    w.register(&format!("crowd{j}"), &a);
                    members.push(Member { addr: a.to_string(), weight: 0 });
                }
            }
            let gmsg = cw4_group::msg::InstantiateMsg { admin: Some(ga.to_string()), members };
            let g = match guarded(|| w.app.instantiate_contract(group_id, creator.clone(), &gmsg, &[], "group", None)) {
                Ok(Ok(g)) => g,
                _ => {
                    // an invalid initial member list (duplicates) is rejected by the group: no run
                    return None;
                }
            };
            w.register("group", &g);
            group = Some(g.clone());
            w.app.update_block(|b| b.height += 5);
            w.set_clock(0, 0);
            let executor = match s(cfg, "executor").as_str() {
                "none" => None,
                "member" => Some(cw3_flex_multisig::state::Executor::Member),
                a => Some(cw3_flex_multisig::state::Executor::Only(w.addr(a))),
            };
            let proposal_deposit = match dep_kind.as_str() {
                "native" => Some(cw3::UncheckedDepositInfo { amount: Uint128::new(dep_amt as u128), denom: cw20::UncheckedDenom::Native(DEP.into()), refund_failed_proposals: dep["refund"].as_bool().unwrap() }),
                "cw20" => Some(cw3::UncheckedDepositInfo { amount: Uint128::new(dep_amt as u128), denom: cw20::UncheckedDenom::Cw20(dtok.to_string()), refund_failed_proposals: dep["refund"].as_bool().unwrap() }),
                _ => None,
            };
            let msg = cw3_flex_multisig::msg::InstantiateMsg { group_addr: g.to_string(), threshold: threshold_of(&cfg["thr"]), max_voting_period: period, executor, proposal_deposit };
            r = call(&mut w, |w| {
                let a = w.app.instantiate_contract(flex_id, creator.clone(), &msg, &[], "ms", None)?;
                w.register("ms", &a);
                Ok(cw_multi_test::AppResponse::default())
            });
        } else {
            w.app.update_block(|b| b.height += 5);
            w.set_clock(0, 0);
            let msg = cw3_fixed_multisig::msg::InstantiateMsg {
                voters: voters.iter().map(|v| cw3_fixed_multisig::msg::Voter { addr: w.addr(&s(v, "a")).to_string(), weight: n(v, "w") }).collect(),
                threshold: threshold_of(&cfg["thr"]),
                max_voting_period: period,
            };
            r = call(&mut w, |w| {
                let a = w.app.instantiate_contract(fixed_id, creator.clone(), &msg, &[], "ms", None)?;
                w.register("ms", &a);
                Ok(cw_multi_test::AppResponse::default())
            });
        }
        if !r.ok {
            out.emit(&json!({"act":"reset","sys":"cw3","run":run_no,"cfg":cfg,"ok":false,"panic":r.panic,"err":r.err,"now":w.now(),"out":[],"anom":[],
                "obs":{"props":[],"voters":{"a1":-1,"a2":-1,"a3":-1},"gtotal":0,"bal":{"a1":0,"a2":0,"a3":0,"ms":0},"flaky":false,
                       "thrq":{"kind":"none","weight":0,"p":0,"q":0,"total":0},"lvoters":[],"voteq":[],"dtokfail":false}}));
            return None;
        }
        let ms = w.addr("ms");
        if flex && cfg.get("hooked").and_then(|x| x.as_bool()).unwrap_or(false) {
            // the group notifies the multisig of every membership change (MemberChangedHook)
            let m = cw4_group::msg::ExecuteMsg::AddHook { addr: ms.to_string() };
            w.app.execute_contract(ga.clone(), group.clone().unwrap(), &m, &[]).unwrap();
        }
        // a little money for harmless bank messages of proposals
        let a1 = w.addr("a1");
        w.app.send_tokens(a1, ms.clone(), &coins(5, OTHER)).unwrap();
        if cfg.get("preapprove").and_then(|x| x.as_bool()).unwrap_or(false) {
            // schedules generated from the specification assume the cw20 pull is authorised
            for u in USERS {
                let a = w.addr(u);
                let m = cw20::Cw20ExecuteMsg::IncreaseAllowance { spender: ms.to_string(), amount: Uint128::new(1000), expires: None };
                w.app.execute_contract(a, dtok.clone(), &m, &[]).unwrap();
            }
        }
        let run = Run { w, flex, ms, group, dtok: Some(dtok), dep_kind, dep_amt, nonce: 0, flaky_on: false, dtok_fails: false };
        let obs = run.observe();
        out.emit(&json!({"act":"reset","sys":"cw3","run":run_no,"cfg":cfg,"ok":true,"panic":false,"err":"","now":run.w.now(),"out":[],"anom":[],"obs":obs}));
        Some(run)
    }

    fn q<T: serde::de::DeserializeOwned>(&self, c: &Addr, m: &impl serde::Serialize) -> Option<T> {
        match guarded(|| self.w.smart::<T>(c, m)) {
            Ok(Ok(v)) => Some(v),
            _ => None,
        }
    }

    fn dep_balance(&self, a: &Addr) -> i64 {
        if self.dep_kind == "cw20" {
            let r: cw20::BalanceResponse = self.w.smart(self.dtok.as_ref().unwrap(), &cw20::Cw20QueryMsg::Balance { address: a.to_string() }).unwrap();
            r.balance.u128() as i64
        } else {
            self.w.app.wrap().query_balance(a, DEP).unwrap().amount.u128() as i64
        }
    }

    /// decode a CosmosMsg (serde form) into a record [k, tag, a, b, amt]:
    /// k = "msg" (a proposal message, identified by tag), "take" (cw20 pull a -> b), "refund" (deposit token paid to a)
    fn tag(&self, m: &Value) -> Value {
        // harmless = dispatching it cannot fail (a note to the sink, a small bank send the multisig can afford)
        let rec = |k: &str, tag: String, a: String, b: String, amt: i64| {
            let harmless = k != "msg" || tag.starts_with("sink:") || tag == "bank:sink:1:uother";
            json!({"k":k,"tag":tag,"a":a,"b":b,"amt":amt,"harmless":harmless})
        };
        let num = |v: &Value| -> i64 { v.as_str().and_then(|x| x.parse::<i64>().ok()).unwrap_or(-1) };
        if let Some(ex) = m.get("wasm").and_then(|x| x.get("execute")) {
            let to = self.w.name_of(ex["contract_addr"].as_str().unwrap_or(""));
            let body: Value = Binary::from_base64(ex["msg"].as_str().unwrap_or("")).ok().and_then(|b| from_json::<Value>(&b).ok()).unwrap_or(Value::Null);
            if to == "dtok" {
                if let Some(t) = body.get("transfer_from") {
                    return rec("take", "".into(), self.w.name_of(t["owner"].as_str().unwrap_or("")), self.w.name_of(t["recipient"].as_str().unwrap_or("")), num(&t["amount"]));
                }
                if let Some(t) = body.get("transfer") {
                    return rec("refund", "".into(), self.w.name_of(t["recipient"].as_str().unwrap_or("")), "".into(), num(&t["amount"]));
                }
            }
            if to == "ms" {
                if let Some(x) = body.get("execute") { return rec("msg", format!("self:execute:{}", x["proposal_id"]), "".into(), "".into(), 0); }
                if let Some(x) = body.get("close") { return rec("msg", format!("self:close:{}", x["proposal_id"]), "".into(), "".into(), 0); }
                if let Some(x) = body.get("vote") { return rec("msg", format!("self:vote:{}", x["proposal_id"]), "".into(), "".into(), 0); }
            }
            if let Some(nn) = body.get("note") {
                return rec("msg", format!("{}:{}", to, nn.as_str().unwrap_or("?")), "".into(), "".into(), 0);
            }
            return rec("msg", format!("{}:?", to), "".into(), "".into(), 0);
        }
        if let Some(b) = m.get("bank").and_then(|x| x.get("send")) {
            let to = self.w.name_of(b["to_address"].as_str().unwrap_or(""));
            let c = &b["amount"][0];
            let denom = c["denom"].as_str().unwrap_or("?");
            if denom == DEP && to == "sink" {
                // a proposal message that spends the deposit denomination out of the multisig's pool
                return rec("msg", format!("drain:{}", c["amount"].as_str().unwrap_or("?")), "".into(), "".into(), num(&c["amount"]));
            }
            if denom == DEP {
                return rec("refund", "".into(), to, "".into(), num(&c["amount"]));
            }
            return rec("msg", format!("bank:{}:{}:{}", to, c["amount"].as_str().unwrap_or("?"), denom), "".into(), "".into(), 0);
        }
        rec("msg", "unknown".into(), "".into(), "".into(), 0)
    }

    pub fn observe(&self) -> Value {
        let w = &self.w;
        // what the two list queries report for every proposal (status, total), keyed by id
        let mut listed: std::collections::BTreeMap<u64, (String, i64)> = Default::default();
        let mut rlisted: std::collections::BTreeMap<u64, (String, i64)> = Default::default();
        let st_name = |s: &Status| -> &'static str { match s { Status::Open => "open", Status::Passed => "passed", Status::Rejected => "rejected", Status::Executed => "executed", Status::Pending => "pending" } };
        let mut cur: Option<u64> = None;
        let mut guard = 0;
        loop {
            guard += 1;
            if guard > 60 { listed.insert(0, ("endless".into(), -1)); break; }
            let r: Option<cw3::ProposalListResponse> = self.q(&self.ms, &cw3_fixed_multisig::msg::QueryMsg::ListProposals { start_after: cur, limit: Some(30) });
            let Some(r) = r else { break };
            if r.proposals.is_empty() { break; }
            cur = Some(r.proposals.last().unwrap().id);
            for p in r.proposals { listed.insert(p.id, (st_name(&p.status).to_string(), thr_resp_to_model(&p.threshold)["total"].as_i64().unwrap_or(-1))); }
        }
        let mut cur: Option<u64> = None;
        let mut guard = 0;
        loop {
            guard += 1;
            if guard > 60 { rlisted.insert(0, ("endless".into(), -1)); break; }
            let r: Option<cw3::ProposalListResponse> = self.q(&self.ms, &cw3_fixed_multisig::msg::QueryMsg::ReverseProposals { start_before: cur, limit: Some(30) });
            let Some(r) = r else { break };
            if r.proposals.is_empty() { break; }
            cur = Some(r.proposals.last().unwrap().id);
            for p in r.proposals { rlisted.insert(p.id, (st_name(&p.status).to_string(), thr_resp_to_model(&p.threshold)["total"].as_i64().unwrap_or(-1))); }
        }
        let mut props = vec![];
        let mut id = 1u64;
        loop {
            let p: Option<ProposalResponse> = self.q(&self.ms, &cw3_fixed_multisig::msg::QueryMsg::Proposal { proposal_id: id });
            let Some(p) = p else {
                // either no such proposal, or the query itself fails: distinguish through ListVotes
                let lv: Option<VoteListResponse> = self.q(&self.ms, &cw3_fixed_multisig::msg::QueryMsg::ListVotes { proposal_id: id, start_after: None, limit: Some(30) });
                if lv.map(|l| !l.votes.is_empty()).unwrap_or(false) {
                    props.push(json!({"id":id,"status":"error","lstatus":"error","rstatus":"error","ltotal":0,"rtotal":0,"expires":{"k":"never","v":0},"thr":{"kind":"count","weight":0,"p":0,"q":0,"total":0},
                        "proposer":"?","msgs":[],"title":"?","dep":{"kind":"none","amt":0,"refund":false},"votes":[],"snap":{"a1":-1,"a2":-1,"a3":-1},"start":0}));
                    id += 1;
                    continue;
                }
                break;
            };
            let mut votes = vec![];
            let mut cursor: Option<String> = None;
            loop {
                if votes.len() > 40 { break; }
                let lv: VoteListResponse = w.smart(&self.ms, &cw3_fixed_multisig::msg::QueryMsg::ListVotes { proposal_id: id, start_after: cursor.clone(), limit: Some(30) }).unwrap();
                if lv.votes.is_empty() {
                    break;
                }
                cursor = Some(lv.votes.last().unwrap().voter.clone());
                for v in lv.votes {
                    votes.push(json!({"voter": w.name_of(&v.voter), "vote": vote_name(&v.vote), "w": v.weight}));
                }
            }
            let status = match p.status {
                Status::Open => "open",
                Status::Passed => "passed",
                Status::Rejected => "rejected",
                Status::Executed => "executed",
                Status::Pending => "pending",
            };
            let depv = match &p.deposit {
                None => json!({"kind":"none","amt":0,"refund":false}),
                Some(d) => json!({"kind": match d.denom { cw20::Denom::Native(_) => "native", cw20::Denom::Cw20(_) => "cw20" }, "amt": d.amount.u128() as i64, "refund": d.refund_failed_proposals}),
            };
            let msgs: Vec<Value> = p.msgs.iter().map(|m| self.tag(&serde_json::to_value(m).unwrap())).collect();
            // title carries the block the proposal was created in: "t<nonce>@<h>"
            let start: u64 = p.title.split('@').nth(1).and_then(|x| x.parse().ok()).unwrap_or(0);
            let mut snap = serde_json::Map::new();
            for u in USERS {
                let wgt: i64 = if let Some(g) = &self.group {
                    let r: Option<MemberResponse> = self.q(g, &cw4_group::msg::QueryMsg::Member { addr: w.addr(u).to_string(), at_height: Some(H0 + start) });
                    r.and_then(|r| r.weight).map(|x| x as i64).unwrap_or(-1)
                } else {
                    let r: VoterResponse = w.smart(&self.ms, &cw3_fixed_multisig::msg::QueryMsg::Voter { address: w.addr(u).to_string() }).unwrap();
                    r.weight.map(|x| x as i64).unwrap_or(-1)
                };
                snap.insert(u.to_string(), json!(wgt));
            }
            let (ls, lt) = listed.get(&p.id).cloned().unwrap_or(("missing".into(), -1));
            let (rs, rt) = rlisted.get(&p.id).cloned().unwrap_or(("missing".into(), -1));
            props.push(json!({"id":p.id,"status":status,"lstatus":ls,"rstatus":rs,"ltotal":lt,"rtotal":rt,"expires":exp_to_model(&p.expires),"thr":thr_resp_to_model(&p.threshold),
                "proposer": w.name_of(p.proposer.as_str()),"msgs":msgs,"title":p.title,"dep":depv,"votes":votes,"snap":Value::Object(snap),"start":start}));
            id += 1;
            if id > 40 {
                break;
            }
        }
        let mut voters = serde_json::Map::new();
        for u in USERS {
            let wgt: i64 = if let Some(g) = &self.group {
                let r: MemberResponse = w.smart(g, &cw4_group::msg::QueryMsg::Member { addr: w.addr(u).to_string(), at_height: None }).unwrap();
                r.weight.map(|x| x as i64).unwrap_or(-1)
            } else {
                let r: VoterResponse = w.smart(&self.ms, &cw3_fixed_multisig::msg::QueryMsg::Voter { address: w.addr(u).to_string() }).unwrap();
                r.weight.map(|x| x as i64).unwrap_or(-1)
            };
            voters.insert(u.to_string(), json!(wgt));
        }
        let gtotal: i64 = if let Some(g) = &self.group {
            let r: TotalWeightResponse = w.smart(g, &cw4_group::msg::QueryMsg::TotalWeight { at_height: None }).unwrap();
            r.weight as i64
        } else {
            let t: ThresholdResponse = w.smart(&self.ms, &cw3_fixed_multisig::msg::QueryMsg::Threshold {}).unwrap();
            thr_resp_to_model(&t)["total"].as_i64().unwrap()
        };
        let mut bal = serde_json::Map::new();
        for u in USERS {
            bal.insert(u.to_string(), json!(self.dep_balance(&w.addr(u))));
        }
        bal.insert("ms".into(), json!(self.dep_balance(&self.ms)));
        // further queries (beyond the listed properties): Threshold{}, ListVoters{}, Vote{} must agree with the rest
        let thrq: Value = self.q::<ThresholdResponse>(&self.ms, &cw3_fixed_multisig::msg::QueryMsg::Threshold {}).map(|t| thr_resp_to_model(&t)).unwrap_or(json!({"kind":"error","weight":0,"p":0,"q":0,"total":0}));
        let mut lvoters = vec![];
        let mut cursor: Option<String> = None;
        loop {
            if lvoters.len() > 40 { break; }
            let r: Option<cw3::VoterListResponse> = self.q(&self.ms, &cw3_fixed_multisig::msg::QueryMsg::ListVoters { start_after: cursor.clone(), limit: Some(30) });
            let Some(r) = r else { break };
            if r.voters.is_empty() { break; }
            cursor = Some(r.voters.last().unwrap().addr.clone());
            for v in r.voters {
                let nm = w.name_of(&v.addr);
                if USERS.contains(&nm.as_str()) { lvoters.push(json!({"a": nm, "w": v.weight})); }
            }
        }
        let mut voteq = vec![];
        for p in props.iter() {
            let id = p["id"].as_u64().unwrap();
            for u in USERS {
                let r: Option<cw3::VoteResponse> = self.q(&self.ms, &cw3_fixed_multisig::msg::QueryMsg::Vote { proposal_id: id, voter: w.addr(u).to_string() });
                if let Some(Some(v)) = r.map(|x| x.vote) {
                    voteq.push(json!({"id": id, "voter": u, "vote": vote_name(&v.vote), "w": v.weight}));
                }
            }
        }
        json!({"props":props,"voters":Value::Object(voters),"gtotal":gtotal,"bal":Value::Object(bal),"flaky":self.flaky_on,
               "thrq":thrq,"lvoters":lvoters,"voteq":voteq,"dtokfail":self.dtok_fails})
    }

    fn build_msgs(&mut self, kind: &str) -> Vec<CosmosMsg> {
        let nn = self.nonce;
        let note = |to: &Addr, tag: String| -> CosmosMsg {
            WasmMsg::Execute { contract_addr: to.to_string(), msg: to_json_binary(&json!({"note": tag})).unwrap(), funds: vec![] }.into()
        };
        let sink = self.w.addr("sink");
        let flaky = self.w.addr("flaky");
        // the id this proposal will get if it is accepted
        let next_id = self.observe()["props"].as_array().unwrap().len() as u64 + 1;
        let selfmsg = |m: Value| -> CosmosMsg { WasmMsg::Execute { contract_addr: self.ms.to_string(), msg: to_json_binary(&m).unwrap(), funds: vec![] }.into() };
        match kind {
            "none" => vec![],
            "sink" => vec![note(&sink, format!("{nn}"))],
            "sink2" => vec![note(&sink, format!("{nn}.1")), note(&sink, format!("{nn}.2"))],
            "bank" => vec![BankMsg::Send { to_address: sink.to_string(), amount: coins(1, OTHER) }.into()],
            "bankbig" => vec![note(&sink, format!("{nn}")), BankMsg::Send { to_address: sink.to_string(), amount: coins(1_000_000_000, OTHER) }.into()],
            "flaky" => vec![note(&sink, format!("{nn}")), note(&flaky, format!("{nn}"))],
            // the members decide to spend one deposit's worth of the deposit denomination (native deposits)
            "drain" => vec![BankMsg::Send { to_address: sink.to_string(), amount: coins(self.dep_amt.max(1) as u128, DEP) }.into()],
            "reexec" => vec![selfmsg(json!({"execute":{"proposal_id":next_id}}))],
            "reclose" => vec![selfmsg(json!({"close":{"proposal_id":next_id}}))],
            "revote" => vec![selfmsg(json!({"vote":{"proposal_id":next_id,"vote":"yes"}}))],
            other => panic!("cw3: unknown proposal message kind {other}"),
        }
    }

    pub fn step(&mut self, st: &Value, out: &mut Out) -> Value {
        let act = s(st, "act");
        let mut args = st.get("args").cloned().unwrap_or(json!({}));
        let by = opt_s(st, "by").unwrap_or_else(|| "env".into());
        let ms = self.ms.clone();
        let r: CallOut = match act.as_str() {
            "advance" => {
                self.w.advance(n(&args, "dh"), n(&args, "dt"));
                CallOut { ok: true, panic: false, err: String::new(), log: vec![], data: None }
            }
            "flaky" => {
                let on = args["on"].as_bool().unwrap_or(false);
                let f = self.w.addr("flaky");
                self.w.app.wasm_sudo(f, &json!({"on": on})).unwrap();
                self.flaky_on = on;
                CallOut { ok: true, panic: false, err: String::new(), log: vec![], data: None }
            }
            "dtokfail" => {
                // fault injection: the cw20 deposit token refuses transfers (refunds) while the switch is on
                let on = args["on"].as_bool().unwrap_or(false);
                let t = self.dtok.clone().unwrap();
                self.w.app.wasm_sudo(t, &json!({"on": on})).unwrap();
                self.dtok_fails = on;
                CallOut { ok: true, panic: false, err: String::new(), log: vec![], data: None }
            }
            "approve" => {
                let sender = self.w.addr(&by);
                let t = self.dtok.clone().unwrap();
                let m = cw20::Cw20ExecuteMsg::IncreaseAllowance { spender: ms.to_string(), amount: Uint128::new(n(&args, "amt") as u128), expires: None };
                let mut r = call(&mut self.w, |w| w.app.execute_contract(sender, t, &m, &[]));
                r.log.clear();
                r
            }
            "group_update" => {
                let sender = self.w.addr(&by);
                let Some(g) = self.group.clone() else {
                    // the fixed flavour has no group: nothing to call, nothing changes
                    let obs = self.observe();
                    out.emit(&json!({"act":act,"by":by,"args":args,"ok":false,"panic":false,"err":"no group","now":self.w.now(),"out":[],"mscalls":0,"anom":[],"obs":obs}));
                    return obs;
                };
                let add: Vec<Member> = args["add"].as_array().unwrap().iter().map(|m| Member { addr: self.w.addr(&s(m, "a")).to_string(), weight: n(m, "w") }).collect();
                let remove: Vec<String> = args["remove"].as_array().unwrap().iter().map(|m| self.w.addr(m.as_str().unwrap()).to_string()).collect();
                let m = cw4_group::msg::ExecuteMsg::UpdateMembers { remove, add };
                call(&mut self.w, |w| w.app.execute_contract(sender, g, &m, &[]))
            }
            "hook" => {
                // somebody other than the group tells the multisig that the membership changed
                let sender = self.w.addr(&by);
                let ms = self.ms.clone();
                let who = self.w.addr(&s(&args, "addr")).to_string();
                // (-1 = no weight: the member was not there before / is removed)
                let wv = |x: &Value| -> Value { match x.as_i64() { Some(v) if v >= 0 => json!(v), _ => Value::Null } };
                let m = json!({"member_changed_hook": {"diffs": [{"key": who, "old": wv(&args["old"]), "new": wv(&args["new"])}]}});
                call(&mut self.w, |w| w.app.execute_contract(sender, ms, &m, &[]))
            }
            "propose" => {
                self.nonce += 1;
                let kind = s(&args, "kind");
                let msgs = self.build_msgs(&kind);
                let tags: Vec<Value> = msgs.iter().map(|m| self.tag(&serde_json::to_value(m).unwrap())).collect();
                args["msgs"] = json!(tags);
                let latest = match args["latest"]["k"].as_str() {
                    Some("h") | Some("t") | Some("never") => Some(exp_to_chain(&args["latest"])),
                    _ => None,
                };
                let title = format!("t{}@{}", self.nonce, self.w.h);
                args["title"] = json!(title);
                let funds_amt = args.get("funds").and_then(|x| x.as_u64()).unwrap_or(0);
                let fdenom = args.get("fdenom").and_then(|x| x.as_str()).unwrap_or(DEP).to_string();
                let mut funds: Vec<Coin> = if funds_amt > 0 { coins(funds_amt as u128, fdenom) } else { vec![] };
                // (the deposit plus coins of another denomination in the same call)
                let extra = args.get("extra").and_then(|x| x.as_u64()).unwrap_or(0);
                if extra > 0 {
                    funds.push(Coin::new(extra as u128, OTHER));
                    funds.sort_by(|a, b| a.denom.cmp(&b.denom));
                }
                let sender = self.w.addr(&by);
                let m = cw3_fixed_multisig::msg::ExecuteMsg::Propose { title, description: "d".into(), msgs, latest };
                call(&mut self.w, |w| w.app.execute_contract(sender, ms.clone(), &m, &funds))
            }
            "vote" => {
                let sender = self.w.addr(&by);
                let m = cw3_fixed_multisig::msg::ExecuteMsg::Vote { proposal_id: n(&args, "id"), vote: vote_of(&s(&args, "vote")) };
                call(&mut self.w, |w| w.app.execute_contract(sender, ms.clone(), &m, &[]))
            }
            "execute" => {
                let sender = self.w.addr(&by);
                let m = cw3_fixed_multisig::msg::ExecuteMsg::Execute { proposal_id: n(&args, "id") };
                call(&mut self.w, |w| w.app.execute_contract(sender, ms.clone(), &m, &[]))
            }
            "close" => {
                let sender = self.w.addr(&by);
                let m = cw3_fixed_multisig::msg::ExecuteMsg::Close { proposal_id: n(&args, "id") };
                call(&mut self.w, |w| w.app.execute_contract(sender, ms.clone(), &m, &[]))
            }
            other => panic!("cw3: unknown action {other}"),
        };
        // messages emitted by the multisig itself in this transaction, one list per multisig call
        // (a re-entrant call shows up as a second list)
        let mut outv: Vec<Value> = vec![];
        let mut calls = 0;
        for l in &r.log {
            if l.tag != "cw3" || l.entry != "execute" {
                continue;
            }
            calls += 1;
            if let Some(msv) = l.messages.as_array() {
                for m in msv {
                    outv.push(self.tag(&m["msg"]));
                }
            }
        }
        let obs = self.observe();
        out.emit(&json!({"act":act,"by":by,"args":args,"ok":r.ok,"panic":r.panic,"err":r.err,"now":self.w.now(),
            "out":outv,"mscalls":calls,"anom":[],"obs":obs}));
        obs
    }

    /// drain phase (C15): move past every expiry and try to close everything that was not executed
    pub fn drain(&mut self, out: &mut Out) {
        if self.dep_kind == "cw20" {
            self.step(&json!({"act":"dtokfail","by":"env","args":{"on":false}}), out);
        }
        self.step(&json!({"act":"advance","by":"env","args":{"dh":60,"dt":600}}), out);
        let obs = self.observe();
        for p in obs["props"].as_array().unwrap() {
            if p["status"] != "executed" {
                self.step(&json!({"act":"close","by":"a3","args":{"id":p["id"],"drain":true}}), out);
            }
        }
        // aftermath: a finished proposal stays finished — late ballots, a second Execute and a second Close must
        // all be refused and move no money (at most three proposals, to keep the traces short)
        for p in obs["props"].as_array().unwrap().iter().take(3) {
            for u in USERS {
                self.step(&json!({"act":"vote","by":u,"args":{"id":p["id"],"vote":"yes","drain":true}}), out);
            }
            self.step(&json!({"act":"execute","by":"a1","args":{"id":p["id"],"drain":true}}), out);
            self.step(&json!({"act":"close","by":"a2","args":{"id":p["id"],"drain":true}}), out);
        }
    }
}

// ------------------------------------------------------------------------------ random driver
fn rand_thr(rng: &mut Rng, total: u64) -> Value {
    match rng.below(3) {
        0 => {
            let extra = if rng.chance(1, 10) { 1 } else { 0 };
            json!({"kind":"count","weight": rng.range(1, total.max(1) + extra),"p":0,"q":0})
        }
        1 => json!({"kind":"pct","weight":0,"p": *rng.pick(&[5_000_000u64, 5_000_001, 5_100_000, 6_666_667, 6_670_000, 7_500_000, 10_000_000]),"q":0}),
        _ => json!({"kind":"quorum","weight":0,"p": *rng.pick(&[5_000_000u64, 5_000_001, 5_100_000, 6_666_667, 10_000_000]),"q": *rng.pick(&[1u64, 10_000, 3_333_334, 3_340_000, 5_000_000, 10_000_000])}),
    }
}

pub fn rand_cfg(rng: &mut Rng) -> Value {
    let flex = rng.chance(3, 5);
    let mut voters = vec![];
    let mut total = 0;
    for u in USERS {
        if rng.chance(5, 6) {
            let wgt = *rng.pick(&[0u64, 1, 1, 2, 3]);
            total += wgt;
            voters.push(json!({"a":u,"w":wgt}));
        }
    }
    if voters.is_empty() {
        voters.push(json!({"a":"a1","w":1}));
        total = 1;
    }
    if rng.chance(1, 10) {
        // a repeated address, with the same or another weight
        let mut d = voters[rng.below(voters.len() as u64) as usize].clone();
        if rng.chance(2, 3) {
            d["w"] = json!(d["w"].as_u64().unwrap() + rng.range(1, 4));
        }
        if rng.chance(1, 2) { voters.push(d); } else { voters.insert(0, d); }
    }
    let period = if rng.chance(1, 2) { json!({"k":"h","v":rng.range(1, 4)}) } else { json!({"k":"t","v":10 * rng.range(1, 3)}) };
    let executor = if !flex { "none".to_string() } else { rng.pick(&["none", "none", "member", "a1", "a2"]).to_string() };
    let dep = if !flex { json!({"kind":"none","amt":0,"refund":false}) } else {
        match rng.below(4) {
            0 => json!({"kind":"none","amt":0,"refund":false}),
            1 | 2 => json!({"kind":"native","amt":rng.range(1,4),"refund":rng.chance(2,3)}),
            _ => json!({"kind":"cw20","amt":rng.range(1,4),"refund":rng.chance(2,3)}),
        }
    };
    json!({"flavour": if flex {"flex"} else {"fixed"}, "voters":voters, "thr":rand_thr(rng, total), "pden":PDEN7, "period":period, "executor":executor, "dep":dep, "hooked": flex && rng.chance(1, 2), "crowd": flex && rng.chance(1, 5)})
}

pub fn random_run(rng: &mut Rng, run_no: u64, len: usize, out: &mut Out) {
    let cfg = rand_cfg(rng);
    let Some(mut run) = Run::start(&cfg, run_no, out) else { return };
    let dep_amt = run.dep_amt;
    let mut obs = run.observe();
    for _ in 0..len {
        let nprops = obs["props"].as_array().unwrap().len() as u64;
        let some_id = |rng: &mut Rng| -> u64 { if nprops == 0 || rng.chance(1, 12) { nprops + 1 } else { rng.range(1, nprops) } };
        let who = rng.pick(&USERS).to_string();
        let st = match rng.below(100) {
            0..=17 => {
                if nprops >= 4 { json!({"act":"advance","by":"env","args":{"dh":1,"dt":3}}) } else {
                let kind = if run.dep_kind == "native" && rng.chance(1, 8) { "drain" } else { *rng.pick(&["none", "sink", "sink", "sink2", "bank", "bankbig", "flaky", "reexec", "reclose", "revote"]) };
                let latest = match rng.below(6) {
                    0 => json!({"k":"h","v": run.w.h + rng.range(0, 5)}),
                    1 => json!({"k":"t","v": run.w.t + rng.range(0, 40)}),
                    2 => json!({"k":"never","v":0}),
                    _ => json!({"k":"none","v":0}),
                };
                let funds = if run.dep_kind == "native" { match rng.below(6) { 0 => 0, 1 => dep_amt + 1, 2 => dep_amt.saturating_sub(1), _ => dep_amt } } else { 0 };
                let fdenom = if run.dep_kind == "native" && rng.chance(1, 10) { OTHER } else { DEP };
                // (coins of another denomination next to a native deposit, or stray native coins on a cw20-deposit multisig)
                let extra = if ((run.dep_kind == "native" && fdenom == DEP) || run.dep_kind == "cw20") && rng.chance(1, 8) { rng.range(1, 3) } else { 0 };
                json!({"act":"propose","by":who,"args":{"kind":kind,"latest":latest,"funds":funds,"fdenom":fdenom,"extra":extra}})
                }
            }
            18..=49 => {
                // prefer a live proposal and a voter without a ballot on it
                let (h, t) = (run.w.h, run.w.t);
                let live: Vec<&Value> = obs["props"].as_array().unwrap().iter().filter(|p| {
                    let e = &p["expires"];
                    match e["k"].as_str() { Some("h") => e["v"].as_u64().unwrap_or(0) > h, Some("t") => e["v"].as_u64().unwrap_or(0) > t, _ => true }
                }).collect();
                if !live.is_empty() && rng.chance(5, 6) {
                    let p = live[rng.below(live.len() as u64) as usize];
                    let voted: Vec<&str> = p["votes"].as_array().unwrap().iter().map(|v| v["voter"].as_str().unwrap()).collect();
                    let fresh: Vec<&str> = USERS.iter().copied().filter(|u| !voted.contains(u)).collect();
                    let voter = if !fresh.is_empty() && rng.chance(5, 6) { fresh[rng.below(fresh.len() as u64) as usize].to_string() } else { who };
                    json!({"act":"vote","by":voter,"args":{"id":p["id"],"vote":*rng.pick(&["yes","yes","yes","no","no","abstain","veto"])}})
                } else {
                    json!({"act":"vote","by":who,"args":{"id":some_id(rng),"vote":*rng.pick(&["yes","yes","no","no","abstain","veto"])}})
                }
            }
            50..=62 => {
                let passed: Vec<u64> = obs["props"].as_array().unwrap().iter().filter(|p| p["status"] == "passed").map(|p| p["id"].as_u64().unwrap()).collect();
                let id = if !passed.is_empty() && rng.chance(3, 4) { passed[rng.below(passed.len() as u64) as usize] } else { some_id(rng) };
                json!({"act":"execute","by":if rng.chance(1,6) {"sink".to_string()} else {who},"args":{"id":id}})
            }
            63..=71 => json!({"act":"close","by":who,"args":{"id":some_id(rng)}}),
            72..=86 => json!({"act":"advance","by":"env","args":{"dh":rng.range(0,1),"dt":rng.range(0,8)}}),
            87..=93 if run.flex => {
                let mut add = vec![];
                let mut remove = vec![];
                for u in USERS {
                    match rng.below(6) {
                        0 => add.push(json!({"a":u,"w":*rng.pick(&[0u64,1,2,3])})),
                        1 => remove.push(json!(u)),
                        _ => {}
                    }
                }
                // (an address may be named twice for removal: the group must count it once)
                if rng.chance(1, 6) && !remove.is_empty() { let d = remove[0].clone(); remove.push(d); }
                json!({"act":"group_update","by": if rng.chance(1,8) {"a1"} else {"ga"},"args":{"add":add,"remove":remove}})
            }
            94 if rng.chance(1, 2) => json!({"act":"hook","by":rng.pick(&["a1","a2","ga","creator"]),"args":{"addr":rng.pick(&USERS),"old":*rng.pick(&[-1i64,1,3]),"new":*rng.pick(&[-1i64,0,5])}}),
            94..=96 => {
                if run.dep_kind == "cw20" && rng.chance(1, 2) { json!({"act":"dtokfail","by":"env","args":{"on":rng.chance(1,2)}}) }
                else { json!({"act":"flaky","by":"env","args":{"on":rng.chance(1,2)}}) }
            }
            _ => {
                if run.dep_kind == "cw20" { json!({"act":"approve","by":who,"args":{"amt":rng.range(0, dep_amt + 1)}}) }
                else { json!({"act":"advance","by":"env","args":{"dh":1,"dt":5}}) }
            }
        };
        obs = run.step(&st, out);
    }
    run.drain(out);
}

pub fn run_schedule(sched: &Value, run_no: u64, out: &mut Out) {
    let Some(mut run) = Run::start(&sched["cfg"], run_no, out) else { return };
    let mut drained = false;
    for st in sched["steps"].as_array().unwrap() {
        if st["args"].get("drain").and_then(|x| x.as_bool()).unwrap_or(false) {
            drained = true;
        }
        run.step(st, out);
    }
    if !drained {
        run.drain(out);
    }
}
