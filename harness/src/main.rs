//! cwv — conformance harness: runs the real cw-plus contracts inside cw-multi-test and records
//! one ndjson event per call with the projected abstract state (see /verif/DESIGN.md section 5).
mod common;
mod cw1;
mod cw20;
mod cw3;
mod cw4;
mod ics20;
mod paging;
mod thr;

use common::*;
use serde_json::Value;
use std::io::BufRead;

fn main() {
    let args: Vec<String> = std::env::args().collect();
    if args.len() < 2 {
        eprintln!("usage: cwv <sys> --out FILE [--stats FILE] [--schedules FILE] [--random N] [--len L] [--seed S]");
        std::process::exit(2);
    }
    let sys = args[1].clone();
    let mut out_path = String::from("trace.ndjson");
    let mut stats: Option<String> = None;
    let mut schedules: Option<String> = None;
    let mut random: u64 = 0;
    let mut len: usize = 40;
    let mut seed: u64 = 1;
    let mut mode = String::new();
    let mut i = 2;
    while i < args.len() {
        let v = args.get(i + 1).cloned().unwrap_or_default();
        match args[i].as_str() {
            "--out" => out_path = v,
            "--stats" => stats = Some(v),
            "--schedules" => schedules = Some(v),
            "--random" => random = v.parse().unwrap(),
            "--len" => len = v.parse().unwrap(),
            "--seed" => seed = v.parse().unwrap(),
            "--mode" => mode = v,
            "--fixtures" => load_fixtures(&v),
            x => {
                eprintln!("unknown option {x}");
                std::process::exit(2);
            }
        }
        i += 2;
    }
    let _ = &mode;
    silence_panics();
    let mut out = Out::create(&out_path);
    let mut run_no = 0u64;
    if let (Some(p), false) = (&schedules, sys == "thr" || sys == "paging") {
        let f = std::fs::File::open(p).unwrap_or_else(|e| panic!("cannot open {p}: {e}"));
        for line in std::io::BufReader::new(f).lines() {
            let line = line.unwrap();
            if line.trim().is_empty() {
                continue;
            }
            let sched: Value = serde_json::from_str(&line).unwrap_or_else(|e| panic!("bad schedule line: {e}"));
            run_no += 1;
            match sys.as_str() {
                "cw1" => run_guarded(&mut out, |o| cw1::run_schedule(&sched, run_no, o)),
                "cw20" => run_guarded(&mut out, |o| cw20::run_schedule(&sched, run_no, o)),
                "cw3" => run_guarded(&mut out, |o| cw3::run_schedule(&sched, run_no, o)),
                "ics20" => run_guarded(&mut out, |o| ics20::run_schedule(&sched, run_no, o)),
                "cw4" => run_guarded(&mut out, |o| cw4::run_schedule(&sched, run_no, o)),
                _ => {
                    eprintln!("unknown system {sys}");
                    std::process::exit(2);
                }
            }
        }
    }
    let mut rng = Rng::new(seed);
    if mode == "mkfixtures" {
        // record states as the current tree writes them (tools/mkfixtures.sh, on the unchanged tree only)
        match sys.as_str() {
            "cw20" => cw20::make_fixtures(&mut rng, random as usize, len, &out_path),
            "cw1" => cw1::make_fixtures(&mut rng, random as usize, len, &out_path),
            "ics20" => ics20::make_fixtures(&mut rng, random as usize, len, &out_path),
            _ => {
                eprintln!("no fixtures for {sys}");
                std::process::exit(2);
            }
        }
        return;
    }
    if sys == "paging" {
        // --mode sizes:0,1,9,... selects the listing sizes
        let sizes: Vec<usize> = mode.strip_prefix("sizes:").unwrap_or("0,1,9,10,11,29,30,31,45").split(',').map(|x| x.parse().unwrap()).collect();
        paging::run_all(&mut rng, &sizes, &mut out);
        out.finish(stats.as_deref());
        return;
    }
    if sys == "thr" && schedules.is_some() {
        thr::replay(schedules.as_ref().unwrap(), &mut out);
        out.finish(stats.as_deref());
        return;
    }
    if sys == "thr" {
        // --mode grid:<MaxT> enumerates the complete small domain; --random N adds N cases at u64 magnitudes
        if let Some(mt) = mode.strip_prefix("grid:") {
            thr::grid(mt.parse().unwrap(), &mut out);
        }
        thr::random_big(&mut rng, random, &mut out);
        out.finish(stats.as_deref());
        return;
    }
    for _ in 0..random {
        run_no += 1;
        match sys.as_str() {
            "cw1" => run_guarded(&mut out, |o| cw1::random_run(&mut rng, run_no, len, o)),
            "cw20" => run_guarded(&mut out, |o| cw20::random_run(&mut rng, run_no, len, o)),
            "cw3" => run_guarded(&mut out, |o| cw3::random_run(&mut rng, run_no, len, o)),
            "ics20" => run_guarded(&mut out, |o| ics20::random_run(&mut rng, run_no, len, o)),
            "cw4" => run_guarded(&mut out, |o| cw4::random_run(&mut rng, run_no, len, o)),
            _ => {
                eprintln!("unknown system {sys}");
                std::process::exit(2);
            }
        }
    }
    out.finish(stats.as_deref());
}
