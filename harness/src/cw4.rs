//! cw4-group and cw4-stake: executes schedules / random runs on the real contracts and records the
//! projected state, point-in-time query answers and hook notifications (properties C09 C10 C14).
use crate::common::*;
use cosmwasm_std::{coins, from_json, to_json_binary, Addr, Binary, Coin, Empty, Uint128};
use cw4::{AdminResponse, HooksResponse, Member, MemberListResponse, MemberResponse, TotalWeightResponse};
use cw_multi_test::{Contract, Executor};
use cw_utils::Duration;
use serde_json::{json, Value};

pub const USERS: [&str; 3] = ["a1", "a2", "a3"];
const STK: &str = "ustk";
const OTH: &str = "uoth";
const RICH: u128 = 1u128 << 110;

fn group_code() -> Box<dyn Contract<Empty>> {
    Recorded::new("cw4", crate::contract_code!(cw4_group, has_reply_cw4_group, has_sudo_cw4_group, has_migrate_cw4_group))
}
fn stake_code() -> Box<dyn Contract<Empty>> {
    Recorded::new("cw4", crate::contract_code!(cw4_stake, has_reply_cw4_stake, has_sudo_cw4_stake, has_migrate_cw4_stake))
}

pub struct Run {
    pub w: World,
    pub stake: bool,
    pub c: Addr,
    pub wdiv: u128,   // reported weight = real weight / wdiv
    pub sc: Scale,    // stake amounts
    pub cw20: bool,
    pub tok: Option<Addr>,
    pub oth: Option<Addr>,
}

impl Run {
    fn wdown(&self, w: Option<u64>, anom: &mut Vec<String>) -> i64 {
        match w {
            None => -1,
            Some(x) => {
                if (x as u128) % self.wdiv != 0 {
                    anom.push(format!("weight {x} is not a multiple of the run's weight scale {}", self.wdiv));
                    return -7;
                }
                let q = (x as u128) / self.wdiv;
                if q >= (1 << 30) {
                    anom.push(format!("weight {x} does not fit the model's integers"));
                    return -8;
                }
                q as i64
            }
        }
    }
    fn wup(&self, units: u64) -> u64 {
        ((units as u128) * self.wdiv).min(u64::MAX as u128) as u64
    }

    pub fn start(cfg: &Value, run_no: u64, out: &mut Out) -> Option<Run> {
        let stake = s(cfg, "flavour") == "stake";
        let mut w = World::new();
        w.app.update_block(|b| b.height -= 5);
        for u in USERS {
            w.user(u);
        }
        let creator = w.user("creator");
        for a in ["ad", "ad2"] {
            w.user(a);
        }
        let sink_id = w.app.store_code(Box::new(crate::cw20::Sink));
        for h in ["h1", "h2"] {
            let a = w.app.instantiate_contract(sink_id, creator.clone(), &Empty {}, &[], h, None).unwrap();
            w.register(h, &a);
        }
        let admin = match s(cfg, "admin").as_str() {
            "none" => None,
            a => Some(w.addr(a).to_string()),
        };
        let users: Vec<Addr> = USERS.iter().map(|u| w.addr(u)).collect();
        let r;
        let mut sc = Scale::new(1);
        let mut wdiv = 1u128;
        let mut cw20 = false;
        let mut tok = None;
        let mut oth = None;
        let mut cfgv = cfg.clone();
        if stake {
            let st = &cfg["stake"];
            let log_u = n(st, "scale");
            sc = Scale::new(1u128 << log_u);
            cw20 = s(st, "denom") == "cw20";
            w.app.init_modules(|router, _, storage| {
                for u in &users {
                    router.bank.init_balance(storage, u, vec![Coin::new(RICH, "USTK"), Coin::new(RICH, STK), Coin::new(RICH, OTH)]).unwrap();
                }
            });
            let tok_id = w.app.store_code(crate::ics20::FlakyToken::boxed());
            let mk = |w: &mut World, name: &str| -> Addr {
                let m = cw20_base::msg::InstantiateMsg {
                    name: "Stake Token".into(),
                    symbol: "STK".into(),
                    decimals: 6,
                    initial_balances: users.iter().map(|u| cw20::Cw20Coin { address: u.to_string(), amount: Uint128::new(RICH) }).collect(),
                    mint: None,
                    marketing: None,
                };
                let a = w.app.instantiate_contract(tok_id, creator.clone(), &m, &[], name, None).unwrap();
                w.register(name, &a);
                a
            };
            let t = mk(&mut w, "stk");
            let o = mk(&mut w, "oth");
            tok = Some(t.clone());
            oth = Some(o);
            // tokens_per_weight: either a multiple of the amount scale (weights are then plain quotients of
            // units) or a power of two below it (weights are then multiples of 2^(scale-k): the u64 edge is near)
            let tpw_log = st.get("tpwLog").and_then(|x| x.as_i64()).unwrap_or(-1);
            let tpw_real: u128 = if tpw_log >= 0 {
                wdiv = 1u128 << (log_u - tpw_log as u64);
                1u128 << tpw_log
            } else {
                (n(st, "tpw") as u128) << log_u
            };
            let max_w = (u64::MAX as u128) / wdiv;
            cfgv["stake"]["maxW"] = json!(if max_w < (1 << 30) { max_w as i64 } else { -1 });
            cfgv["stake"]["tpwUnits"] = json!(if tpw_log >= 0 { 1 } else { n(st, "tpw") });
            let period = if s(&st["period"], "k") == "h" { Duration::Height(n(&st["period"], "v")) } else { Duration::Time(ticks_to_secs(n(&st["period"], "v"))) };
            let msg = cw4_stake::msg::InstantiateMsg {
                denom: if cw20 { cw20::Denom::Cw20(t.clone()) } else { cw20::Denom::Native(STK.into()) },
                tokens_per_weight: Uint128::new(tpw_real),
                min_bond: Uint128::new(sc.up(n(st, "minBond"))),
                unbonding_period: period,
                admin,
            };
            let code = w.app.store_code(stake_code());
            r = call(&mut w, |w| {
                let a = w.app.instantiate_contract(code, creator.clone(), &msg, &[], "stake", None)?;
                w.register("c", &a);
                Ok(cw_multi_test::AppResponse::default())
            });
        } else {
            let wlog = cfg.get("wscale").and_then(|x| x.as_u64()).unwrap_or(0);
            wdiv = 1u128 << wlog;
            let max_w = (u64::MAX as u128) / wdiv;
            cfgv["maxW"] = json!(if max_w < (1 << 30) { max_w as i64 } else { -1 });
            let members: Vec<Member> = cfg["members"].as_array().unwrap().iter().map(|m| Member { addr: if s(m, "a") == "invalid" { "not-an-address".to_string() } else { w.addr(&s(m, "a")).to_string() }, weight: ((n(m, "w") as u128) * wdiv).min(u64::MAX as u128) as u64 }).collect();
            // a crowd of weightless members (weight 0 is a valid weight): the group has more members than any page or
            // batch size of the code, while totals, weights and thresholds are those of the three tracked members
            let crowd = cfg.get("crowd").and_then(|x| x.as_u64()).unwrap_or(0);
            let mut members = members;
            if crowd > 0 {
                // (addresses that sort before everybody else's: a listing's first pages hold only the crowd)
                let mut cands: Vec<Addr> = (0..400).map(|i| w.app.api().addr_make(&format!("crowd-candidate-{i}"))).collect();
                cands.sort();
                for (j, a) in cands.into_iter().take(crowd as usize).enumerate() {
                    w.register(&format!("crowd{j}"), &a);
                    members.push(Member { addr: a.to_string(), weight: 0 });
                }
            }
            let msg = cw4_group::msg::InstantiateMsg { admin, members };
            let code = w.app.store_code(group_code());
            r = call(&mut w, |w| {
                let a = w.app.instantiate_contract(code, creator.clone(), &msg, &[], "group", None)?;
                w.register("c", &a);
                Ok(cw_multi_test::AppResponse::default())
            });
        }
        w.app.update_block(|b| b.height += 5);
        w.set_clock(0, 0);
        if !r.ok {
            out.emit(&json!({"act":"reset","sys":"cw4","run":run_no,"cfg":cfgv,"ok":false,"panic":r.panic,"err":r.err,"now":w.now(),"out":[],"anom":[],
                "obs":{"members":{"a1":-1,"a2":-1,"a3":-1},"total":0,"nlisted":0,"listed":[],"admin":"none","hooks":[],"stake":{"a1":0,"a2":0,"a3":0},
                       "claims":{"a1":[],"a2":[],"a3":[]},"held":0,"ubal":{"a1":0,"a2":0,"a3":0}}}));
            return None;
        }
        let c = w.addr("c");
        let run = Run { w, stake, c, wdiv, sc, cw20, tok, oth };
        let mut anom = vec![];
        let obs = run.observe(&mut anom);
        anom.extend(run.sc.take_anomalies());
        out.emit(&json!({"act":"reset","sys":"cw4","run":run_no,"cfg":cfgv,"ok":true,"panic":false,"err":"","now":run.w.now(),"out":[],"anom":anom,"obs":obs}));
        Some(run)
    }

    fn stake_balance(&self, a: &Addr) -> u128 {
        if self.cw20 {
            let r: cw20::BalanceResponse = self.w.smart(self.tok.as_ref().unwrap(), &cw20::Cw20QueryMsg::Balance { address: a.to_string() }).unwrap();
            r.balance.u128()
        } else {
            self.w.app.wrap().query_balance(a, STK).unwrap().amount.u128()
        }
    }

    pub fn observe(&self, anom: &mut Vec<String>) -> Value {
        let w = &self.w;
        let mut members = serde_json::Map::new();
        for u in USERS {
            let r: MemberResponse = w.smart(&self.c, &cw4_group::msg::QueryMsg::Member { addr: w.addr(u).to_string(), at_height: None }).unwrap();
            members.insert(u.to_string(), json!(self.wdown(r.weight, anom)));
        }
        let total: TotalWeightResponse = if self.stake {
            w.smart(&self.c, &cw4_stake::msg::QueryMsg::TotalWeight {}).unwrap()
        } else {
            w.smart(&self.c, &cw4_group::msg::QueryMsg::TotalWeight { at_height: None }).unwrap()
        };
        let mut listed = vec![];
        let mut walked = 0usize; // weightless crowd members met on the way
        let mut cursor: Option<String> = None;
        loop {
            // small pages on purpose: "the listed members" are what a client gets walking the listing
            let r: MemberListResponse = match w.smart(&self.c, &cw4_group::msg::QueryMsg::ListMembers { start_after: cursor.clone(), limit: Some(2) }) {
                Ok(r) => r,
                Err(e) => {
                    anom.push(format!("ListMembers cannot be walked: {e}"));
                    break;
                }
            };
            if r.members.is_empty() {
                break;
            }
            cursor = Some(r.members.last().unwrap().addr.clone());
            for m in r.members {
                let name = w.name_of(&m.addr);
                if name.starts_with("crowd") {
                    if m.weight != 0 {
                        anom.push(format!("weightless member {name} listed with weight {}", m.weight));
                    }
                    walked += 1;
                    continue;
                }
                listed.push(json!({"a": name, "w": self.wdown(Some(m.weight), anom)}));
            }
            if listed.len() + walked > 120 {
                break;
            }
        }
        let admin: AdminResponse = w.smart(&self.c, &cw4_group::msg::QueryMsg::Admin {}).unwrap();
        let hooks: HooksResponse = w.smart(&self.c, &cw4_group::msg::QueryMsg::Hooks {}).unwrap();
        let mut o = json!({
            "members": Value::Object(members), "total": self.wdown(Some(total.weight), anom), "nlisted": listed.len(), "listed": listed,
            "admin": admin.admin.map(|a| w.name_of(&a)).unwrap_or_else(|| "none".into()),
            "hooks": hooks.hooks.iter().map(|h| w.name_of(h)).collect::<Vec<_>>(),
            "stake": {"a1":0,"a2":0,"a3":0}, "claims": {"a1":[],"a2":[],"a3":[]}, "held": 0, "ubal": {"a1":0,"a2":0,"a3":0},
        });
        if self.stake {
            for u in USERS {
                let a = w.addr(u);
                let r: cw4_stake::msg::StakedResponse = w.smart(&self.c, &cw4_stake::msg::QueryMsg::Staked { address: a.to_string() }).unwrap();
                o["stake"][u] = json!(self.sc.down(r.stake.u128(), "stake"));
                let cl: cw_controllers::ClaimsResponse = w.smart(&self.c, &cw4_stake::msg::QueryMsg::Claims { address: a.to_string() }).unwrap();
                o["claims"][u] = json!(cl.claims.iter().map(|c| json!({"amt": self.sc.down(c.amount.u128(), "claim"), "rel": exp_to_model(&c.release_at)})).collect::<Vec<_>>());
                let b = self.stake_balance(&a);
                o["ubal"][u] = json!(if b >= RICH { self.sc.down(b - RICH, "user balance") } else { -self.sc.down(RICH - b, "user balance") });
            }
            o["held"] = json!(self.sc.down(self.stake_balance(&self.c), "held"));
        }
        o
    }

    pub fn step(&mut self, st: &Value, out: &mut Out) -> Value {
        let act = s(st, "act");
        let mut args = st.get("args").cloned().unwrap_or(json!({}));
        let by = opt_s(st, "by").unwrap_or_else(|| "env".into());
        let c = self.c.clone();
        let mut anom: Vec<String> = vec![];
        let noop = || CallOut { ok: true, panic: false, err: String::new(), log: vec![], data: None };
        let r: CallOut = match act.as_str() {
            "advance" => {
                self.w.advance(n(&args, "dh"), n(&args, "dt"));
                noop()
            }
            "tokfail" | "sloppy" => {
                // faults of the staked cw20 token: its Transfer (claim payout) fails / its Receive names the sender sloppily
                if let Some(t) = self.tok.clone() {
                    let on = args["on"].as_bool().unwrap_or(false);
                    let m = if act == "tokfail" { json!({"on": on}) } else { json!({"sloppy": on}) };
                    self.w.app.wasm_sudo(t, &m).unwrap();
                }
                noop()
            }
            "query" => {
                // point-in-time answers are first-class trace events (C09)
                let h = args["h"].as_i64().unwrap();
                let chain_h = (H0 as i64 + h) as u64;
                let kind = s(&args, "kind");
                let ans: i64 = if kind == "member" {
                    let r: MemberResponse = self.w.smart(&c, &cw4_group::msg::QueryMsg::Member { addr: self.w.addr(&s(&args, "addr")).to_string(), at_height: Some(chain_h) }).unwrap();
                    self.wdown(r.weight, &mut anom)
                } else if kind == "total" {
                    let r: TotalWeightResponse = self.w.smart(&c, &cw4_group::msg::QueryMsg::TotalWeight { at_height: Some(chain_h) }).unwrap();
                    self.wdown(Some(r.weight), &mut anom)
                } else if kind == "raw_member" {
                    let a = self.w.addr(&s(&args, "addr"));
                    let raw = self.w.app.wrap().query_wasm_raw(&c, cw4::member_key(a.as_str())).unwrap();
                    let wv: Option<u64> = raw.map(|b| from_json::<u64>(&Binary::from(b)).unwrap());
                    // the helper packages read the same keys through cw-storage-plus
                    let via: Option<u64> = cw4::Cw4Contract(c.clone()).is_member(&self.w.app.wrap(), &a, None).unwrap();
                    if via != wv {
                        anom.push("Cw4Contract::is_member disagrees with the raw member key".into());
                    }
                    self.wdown(wv, &mut anom)
                } else {
                    let raw = self.w.app.wrap().query_wasm_raw(&c, cw4::TOTAL_KEY.as_bytes()).unwrap();
                    let wv: Option<u64> = raw.map(|b| from_json::<u64>(&Binary::from(b)).unwrap());
                    let via: u64 = cw4::Cw4Contract(c.clone()).total_weight(&self.w.app.wrap()).unwrap();
                    if Some(via) != wv {
                        anom.push("Cw4Contract::total_weight disagrees with the raw total key".into());
                    }
                    self.wdown(wv, &mut anom)
                };
                args["ans"] = json!(ans);
                noop()
            }
            "update_members" => {
                let sender = self.w.addr(&by);
                let add: Vec<Member> = args["add"].as_array().unwrap().iter().map(|m| Member { addr: self.w.addr(&s(m, "a")).to_string(), weight: self.wup(n(m, "w")) }).collect();
                let remove: Vec<String> = args["remove"].as_array().unwrap().iter().map(|m| self.w.addr(m.as_str().unwrap()).to_string()).collect();
                let mut add = add;
                if args.get("bulk").and_then(|x| x.as_bool()).unwrap_or(false) {
                    // the same call also re-submits every weightless member with weight 0 (a large batch, no change)
                    let mut i = 0;
                    while let Some(a) = self.w.addrs.get(&format!("crowd{i}")) {
                        add.push(Member { addr: a.to_string(), weight: 0 });
                        i += 1;
                    }
                }
                let m = cw4_group::msg::ExecuteMsg::UpdateMembers { remove, add };
                call(&mut self.w, |w| w.app.execute_contract(sender, c.clone(), &m, &[]))
            }
            "update_admin" => {
                let sender = self.w.addr(&by);
                let new = s(&args, "new");
                let m = cw4_group::msg::ExecuteMsg::UpdateAdmin { admin: if new == "none" { None } else { Some(self.w.addr(&new).to_string()) } };
                call(&mut self.w, |w| w.app.execute_contract(sender, c.clone(), &m, &[]))
            }
            "add_hook" | "remove_hook" => {
                let sender = self.w.addr(&by);
                let h = self.w.addr(&s(&args, "hook")).to_string();
                let m = if act == "add_hook" { cw4_group::msg::ExecuteMsg::AddHook { addr: h } } else { cw4_group::msg::ExecuteMsg::RemoveHook { addr: h } };
                call(&mut self.w, |w| w.app.execute_contract(sender, c.clone(), &m, &[]))
            }
            "bond" => {
                let sender = self.w.addr(&by);
                let amt = self.sc.up(n(&args, "amt"));
                let token = s(&args, "token");
                if self.cw20 || token == "othercw20" || token == "goodcw20" {
                    // bonding through a cw20 Send (the right token, or a foreign one)
                    let t = if token == "othercw20" { self.oth.clone().unwrap() } else { self.tok.clone().unwrap() };
                    if token == "native" {
                        let funds = coins(amt, STK);
                        call(&mut self.w, |w| w.app.execute_contract(sender, c.clone(), &cw4_stake::msg::ExecuteMsg::Bond {}, &funds))
                    } else {
                        let m = cw20::Cw20ExecuteMsg::Send { contract: c.to_string(), amount: Uint128::new(amt), msg: to_json_binary(&json!({"bond":{}})).unwrap() };
                        call(&mut self.w, |w| w.app.execute_contract(sender, t, &m, &[]))
                    }
                } else {
                    let funds: Vec<Coin> = match token.as_str() {
                        "good" => coins(amt, STK),
                        "otherdenom" => coins(amt, OTH),
                        // a different denomination whose name differs from the staked one only in case
                        "lookalike" => coins(amt, "USTK"),
                        "two" => vec![Coin::new(amt, OTH), Coin::new(amt, STK)],
                        _ => vec![],
                    };
                    call(&mut self.w, |w| w.app.execute_contract(sender, c.clone(), &cw4_stake::msg::ExecuteMsg::Bond {}, &funds))
                }
            }
            "unbond" => {
                let sender = self.w.addr(&by);
                let m = cw4_stake::msg::ExecuteMsg::Unbond { tokens: Uint128::new(self.sc.up(n(&args, "amt"))) };
                call(&mut self.w, |w| w.app.execute_contract(sender, c.clone(), &m, &[]))
            }
            "claim" => {
                let sender = self.w.addr(&by);
                call(&mut self.w, |w| w.app.execute_contract(sender, c.clone(), &cw4_stake::msg::ExecuteMsg::Claim {}, &[]))
            }
            other => panic!("cw4: unknown action {other}"),
        };
        // hook notifications and payouts emitted by the contract in this transaction
        let mut outv: Vec<Value> = vec![];
        for l in &r.log {
            if l.tag != "cw4" || l.entry != "execute" {
                continue;
            }
            for m in l.messages.as_array().unwrap_or(&vec![]) {
                outv.push(self.decode(&m["msg"], &mut anom));
            }
        }
        let obs = self.observe(&mut anom);
        anom.extend(self.sc.take_anomalies());
        out.emit(&json!({"act":act,"by":by,"args":args,"ok":r.ok,"panic":r.panic,"err":r.err,"now":self.w.now(),"out":outv,"anom":anom,"obs":obs}));
        obs
    }

    fn decode(&self, m: &Value, anom: &mut Vec<String>) -> Value {
        if let Some(ex) = m.get("wasm").and_then(|x| x.get("execute")) {
            let to = self.w.name_of(ex["contract_addr"].as_str().unwrap_or(""));
            let body: Value = Binary::from_base64(ex["msg"].as_str().unwrap_or("")).ok().and_then(|b| from_json::<Value>(&b).ok()).unwrap_or(Value::Null);
            if let Some(h) = body.get("member_changed_hook") {
                let mut diffs: Vec<Value> = vec![];
                for d in h["diffs"].as_array().unwrap_or(&vec![]) {
                    let name = self.w.name_of(d["key"].as_str().unwrap_or(""));
                    if name.starts_with("crowd") {
                        // entries of the weightless crowd are not part of the model; they must say 0 -> 0
                        if d["old"].as_u64() != Some(0) || d["new"].as_u64() != Some(0) {
                            anom.push(format!("hook entry for weightless member {name}: {} -> {}", d["old"], d["new"]));
                        }
                        continue;
                    }
                    diffs.push(json!({"a": name, "old": self.wdown(d["old"].as_u64(), anom), "new": self.wdown(d["new"].as_u64(), anom)}));
                }
                return json!({"k":"hook","to":to,"diffs":diffs,"amt":0});
            }
            if let Some(t) = body.get("transfer") {
                let amount: u128 = t["amount"].as_str().unwrap_or("0").parse().unwrap_or(0);
                return json!({"k": if to == "stk" {"pay"} else {"other"},"to":self.w.name_of(t["recipient"].as_str().unwrap_or("")),"diffs":[],"amt":self.sc.down(amount, "payout")});
            }
            return json!({"k":"other","to":to,"diffs":[],"amt":0});
        }
        if let Some(b) = m.get("bank").and_then(|x| x.get("send")) {
            let cn = &b["amount"][0];
            let amount: u128 = cn["amount"].as_str().unwrap_or("0").parse().unwrap_or(0);
            let good = cn["denom"].as_str() == Some(STK) && b["amount"].as_array().map(|a| a.len()) == Some(1);
            return json!({"k": if good {"pay"} else {"other"},"to":self.w.name_of(b["to_address"].as_str().unwrap_or("")),"diffs":[],"amt":self.sc.down(amount, "payout")});
        }
        json!({"k":"other","to":"?","diffs":[],"amt":0})
    }

    /// sample point-in-time queries around the interesting heights (C09)
    fn probes(&mut self, rng: &mut Rng, out: &mut Out, changed_heights: &[u64]) {
        let h_now = self.w.h as i64;
        let mut hs: Vec<i64> = vec![-6, -5, -4, 0, h_now, h_now + 1, h_now + 1000];
        for ch in changed_heights {
            hs.push(*ch as i64);
            hs.push(*ch as i64 + 1);
        }
        for _ in 0..3 {
            let h = *rng.pick(&hs);
            let a = *rng.pick(&USERS);
            self.step(&json!({"act":"query","by":"env","args":{"kind":"member","addr":a,"h":h}}), out);
            if !self.stake {
                let h2 = *rng.pick(&hs);
                self.step(&json!({"act":"query","by":"env","args":{"kind":"total","addr":"-","h":h2}}), out);
            }
        }
        if rng.chance(1, 3) {
            self.step(&json!({"act":"query","by":"env","args":{"kind":"raw_member","addr":rng.pick(&USERS),"h":0}}), out);
            self.step(&json!({"act":"query","by":"env","args":{"kind":"raw_total","addr":"-","h":0}}), out);
        }
    }
}

// ------------------------------------------------------------------------------ random driver
pub fn rand_cfg(rng: &mut Rng) -> Value {
    let stake = rng.chance(1, 2);
    let admin = if rng.chance(1, 8) { "none" } else { "ad" };
    if stake {
        let scale = *rng.pick(&[0u64, 0, 40, 60, 100]);
        let tpw_log: i64 = if scale == 60 && rng.chance(2, 3) { 0 } else { -1 };
        let period = if rng.chance(1, 2) { json!({"k":"h","v":rng.range(1,3)}) } else { json!({"k":"t","v":10 * rng.range(1,2)}) };
        json!({"flavour":"stake","admin":admin,"members":[],
            "stake":{"denom": if rng.chance(1,2) {"native"} else {"cw20"}, "scale":scale, "tpw": rng.range(1,3), "tpwLog": tpw_log,
                     "minBond": rng.range(0,4), "period": period}})
    } else {
        let wscale = if rng.chance(1, 4) { 60 } else { 0 };
        let top = if wscale == 60 { 7 } else { 5 };
        let mut members = vec![];
        for u in USERS {
            if rng.chance(2, 3) {
                members.push(json!({"a":u,"w":rng.range(0, top)}));
            }
        }
        if rng.chance(1, 12) && !members.is_empty() {
            let d = members[0].clone();
            members.push(d);
        }
        if rng.chance(1, 15) {
            // an entry whose address does not validate: the whole instantiate must be refused
            members.push(json!({"a":"invalid","w":rng.range(1, top)}));
        }
        json!({"flavour":"group","admin":admin,"members":members,"wscale":wscale,"crowd": if rng.chance(1, 4) { 40 } else { 0 }})
    }
}

pub fn random_run(rng: &mut Rng, run_no: u64, len: usize, out: &mut Out) {
    let cfg = rand_cfg(rng);
    let Some(mut run) = Run::start(&cfg, run_no, out) else { return };
    let top_w: u64 = if run.wdiv > 1 { 9 } else { 5 };
    let mut changed: Vec<u64> = vec![];
    let mut anom = vec![];
    let mut obs = run.observe(&mut anom);
    for _ in 0..len {
        let who = rng.pick(&USERS).to_string();
        let admin_now = obs["admin"].as_str().unwrap_or("none").to_string();
        let adm = if rng.chance(5, 6) && admin_now != "none" { admin_now.clone() } else { rng.pick(&["ad", "ad2", "a1"]).to_string() };
        let st = match rng.below(100) {
            0..=34 if !run.stake => {
                let mut add = vec![];
                let mut remove = vec![];
                for u in USERS {
                    match rng.below(5) {
                        0 | 1 => add.push(json!({"a":u,"w":rng.range(0, top_w)})),
                        2 => remove.push(json!(u)),
                        _ => {}
                    }
                    if rng.chance(1, 10) { remove.push(json!(u)); }
                }
                if rng.chance(1, 15) && !add.is_empty() { let d = add[0].clone(); add.push(d); }
                let bulk = run.w.addrs.contains_key("crowd0") && rng.chance(1, 4);
                json!({"act":"update_members","by":adm,"args":{"add":add,"remove":remove,"bulk":bulk}})
            }
            0..=24 => {
                let staked = obs["stake"][&who].as_i64().unwrap_or(0);
                let _ = staked;
                let token = if run.cw20 { *rng.pick(&["good", "good", "good", "good", "othercw20", "native"]) } else { *rng.pick(&["good", "good", "good", "good", "good", "otherdenom", "lookalike", "two", "none", "goodcw20"]) };
                let big = run.sc.u > 1 && run.wdiv > 1 && rng.chance(1, 3);
                let amt = if big { rng.range(10, 40) } else { rng.range(0, 7) };
                json!({"act":"bond","by":who,"args":{"amt":amt,"token":token}})
            }
            25..=34 => {
                let staked = obs["stake"][&who].as_i64().unwrap_or(0).max(0) as u64;
                let amt = match rng.below(4) { 0 => staked, 1 => staked + 1, _ => rng.range(0, staked.max(1)) };
                json!({"act":"unbond","by":who,"args":{"amt":amt}})
            }
            35..=44 if run.stake => json!({"act":"claim","by":who,"args":{}}),
            35..=44 => json!({"act":"update_members","by":adm,"args":{"add":[{"a":who,"w":rng.range(0, top_w)}],"remove":[]}}),
            45..=52 => json!({"act":"update_admin","by":adm,"args":{"new":rng.pick(&["ad","ad2","ad2","none","h1"])}}),
            85..=91 if run.stake && run.cw20 => json!({"act": if rng.chance(1, 2) {"tokfail"} else {"sloppy"},"by":"env","args":{"on":rng.chance(2,3)}}),
            53..=62 => {
                let h = *rng.pick(&["h1", "h2"]);
                let by = if rng.chance(1, 6) { h.to_string() } else { adm.clone() };
                json!({"act":"add_hook","by":by,"args":{"hook":h}})
            }
            63..=67 => {
                // also a registered hook trying to unregister itself (or the other one), and a member
                let h = *rng.pick(&["h1", "h2"]);
                let by = match rng.below(5) { 0 | 1 => h.to_string(), 2 => rng.pick(&["h1", "h2", "a1"]).to_string(), _ => adm.clone() };
                json!({"act":"remove_hook","by":by,"args":{"hook":h}})
            }
            68..=84 => json!({"act":"advance","by":"env","args":{"dh":rng.range(0,2),"dt":rng.range(0,9)}}),
            _ => json!({"act":"query","by":"env","args":{"kind":"member","addr":who,"h":run.w.h as i64}}),
        };
        let before = obs["members"].clone();
        obs = run.step(&st, out);
        if obs["members"] != before {
            changed.push(run.w.h);
        }
        if rng.chance(1, 4) {
            run.probes(rng, out, &changed);
        }
    }
    run.probes(rng, out, &changed);
}

pub fn run_schedule(sched: &Value, run_no: u64, out: &mut Out) {
    let Some(mut run) = Run::start(&sched["cfg"], run_no, out) else { return };
    let mut rng = Rng::new(run_no);
    let mut changed: Vec<u64> = vec![];
    for st in sched["steps"].as_array().unwrap() {
        let mut anom = vec![];
        let before = run.observe(&mut anom)["members"].clone();
        let obs = run.step(st, out);
        if obs["members"] != before {
            changed.push(run.w.h);
        }
    }
    // replayed traces already contain their probes (query events); generated schedules get them here
    if !sched["steps"].as_array().unwrap().iter().any(|s| s["act"] == "query") {
        run.probes(&mut rng, out, &changed);
        run.probes(&mut rng, out, &changed);
    }
}
