//! cw20-ics20: runs the real contract (execute, IBC entry points through `sudo`, the real reply
//! handler, a real cw20-base token with a failure switch, the real bank) and records the projected
//! state (properties C11 C12 C18).
use crate::common::*;
use cosmwasm_std::{
    coins, from_json, to_json_binary, Addr, Binary, Coin, DepsMut, Empty, Env, IbcAcknowledgement, IbcChannel,
    IbcChannelConnectMsg, IbcEndpoint, IbcOrder, IbcPacket, IbcPacketAckMsg, IbcPacketReceiveMsg, IbcPacketTimeoutMsg,
    IbcTimeout, MessageInfo, Response, Timestamp, Uint128,
};
use cw20_ics20::msg::{AllowMsg, AllowedResponse, ChannelResponse, ConfigResponse, ExecuteMsg, InitMsg, MigrateMsg, QueryMsg, TransferMsg};
use cw_multi_test::{Contract, ContractWrapper, Executor};
use serde::{Deserialize, Serialize};
use serde_json::{json, Value};

pub const USERS: [&str; 2] = ["u1", "u2"];
const GAS_TOP: i64 = 1_000_000; // model value that stands for u64::MAX
fn gas_up(g: i64) -> Option<u64> {
    if g < 0 { None } else if g == GAS_TOP { Some(u64::MAX) } else { Some(g as u64) }
}
fn gas_down(g: Option<u64>) -> i64 {
    match g { None => -1, Some(u64::MAX) => GAS_TOP, Some(x) => x as i64 }
}
const NAT: &str = "unat";
const NATUP: &str = "UNAT"; // a second native denom that differs from NAT only in letter case
const OUR_PORT: &str = "wasm.ics20";
const REMOTE_PORT: &str = "transfer";

#[derive(Serialize, Deserialize, Clone, Debug)]
#[serde(rename_all = "snake_case")]
pub enum IbcSudo {
    Open { channel: IbcChannel, counterparty_version: Option<String> },
    Connect { channel: IbcChannel },
    Receive { packet: IbcPacket },
    Ack { ack: Binary, packet: IbcPacket },
    Timeout { packet: IbcPacket },
}

fn ibc_sudo(deps: DepsMut, env: Env, msg: IbcSudo) -> Result<Response, cw20_ics20::ContractError> {
    let relayer = Addr::unchecked("relayer");
    match msg {
        IbcSudo::Open { channel, counterparty_version } => {
            let m = match counterparty_version {
                None => cosmwasm_std::IbcChannelOpenMsg::OpenInit { channel },
                Some(v) => cosmwasm_std::IbcChannelOpenMsg::OpenTry { channel, counterparty_version: v },
            };
            cw20_ics20::ibc::ibc_channel_open(deps, env, m)?;
            Ok(Response::new())
        }
        IbcSudo::Connect { channel } => {
            let r = cw20_ics20::ibc::ibc_channel_connect(deps, env, IbcChannelConnectMsg::OpenAck { channel, counterparty_version: "ics20-1".into() })?;
            Ok(Response::new().add_submessages(r.messages).add_attributes(r.attributes))
        }
        IbcSudo::Receive { packet } => {
            // Result<_, Never>: cannot fail; a panic is recorded by the caller
            let r = match cw20_ics20::ibc::ibc_packet_receive(deps, env, IbcPacketReceiveMsg::new(packet, relayer)) {
                Ok(r) => r,
                Err(_) => unreachable!(),
            };
            let mut resp = Response::new().add_submessages(r.messages).add_attributes(r.attributes);
            if let Some(ack) = r.acknowledgement {
                resp = resp.set_data(ack);
            }
            Ok(resp)
        }
        IbcSudo::Ack { ack, packet } => {
            let m = IbcPacketAckMsg::new(IbcAcknowledgement::new(ack), packet, relayer);
            let r = cw20_ics20::ibc::ibc_packet_ack(deps, env, m)?;
            Ok(Response::new().add_submessages(r.messages).add_attributes(r.attributes))
        }
        IbcSudo::Timeout { packet } => {
            let r = cw20_ics20::ibc::ibc_packet_timeout(deps, env, IbcPacketTimeoutMsg::new(packet, relayer))?;
            Ok(Response::new().add_submessages(r.messages).add_attributes(r.attributes))
        }
    }
}

fn ics20_code() -> Box<dyn Contract<Empty>> {
    let c = ContractWrapper::new(cw20_ics20::contract::execute, cw20_ics20::contract::instantiate, cw20_ics20::contract::query)
        .with_sudo(ibc_sudo)
        .with_reply(cw20_ics20::ibc::reply)
        .with_migrate(cw20_ics20::contract::migrate);
    Recorded::new("ics20", Box::new(c))
}

/// cw20-base with fault switches (harness-only; toggled through `sudo`): `on` makes every Transfer fail;
/// `sloppy` makes Send / SendFrom name the sender in upper case in the Receive message (a valid spelling of
/// the same bech32 account, but not the normalised one: what a careless token contract could forward)
pub struct FlakyToken {
    inner: Box<dyn Contract<Empty>>,
}
impl FlakyToken {
    pub fn boxed() -> Box<dyn Contract<Empty>> {
        Box::new(FlakyToken {
            inner: crate::contract_code!(cw20_base, has_reply_cw20_base, has_sudo_cw20_base, has_migrate_cw20_base),
        })
    }
}
impl Contract<Empty> for FlakyToken {
    fn execute(&self, d: DepsMut, e: Env, i: MessageInfo, m: Vec<u8>) -> AnyResult<Response> {
        if d.storage.get(b"verif_fail").is_some() {
            // only payouts by the ics20 contract are made to fail, so that users can still fund transfers
            if let Ok(v) = from_json::<Value>(&m) {
                if v.get("transfer").is_some() {
                    anyhow::bail!("token switched to fail");
                }
            }
        }
        let sloppy = d.storage.get(b"verif_sloppy").is_some();
        let mut r = self.inner.execute(d, e, i, m)?;
        if sloppy {
            for sm in r.messages.iter_mut() {
                if let cosmwasm_std::CosmosMsg::Wasm(cosmwasm_std::WasmMsg::Execute { msg, .. }) = &mut sm.msg {
                    if let Ok(mut v) = from_json::<Value>(&*msg) {
                        if let Some(snd) = v.get("receive").and_then(|x| x.get("sender")).and_then(|x| x.as_str()).map(|x| x.to_uppercase()) {
                            v["receive"]["sender"] = json!(snd);
                            *msg = to_json_binary(&v)?;
                        }
                    }
                }
            }
        }
        Ok(r)
    }
    fn instantiate(&self, d: DepsMut, e: Env, i: MessageInfo, m: Vec<u8>) -> AnyResult<Response> {
        self.inner.instantiate(d, e, i, m)
    }
    fn query(&self, d: cosmwasm_std::Deps, e: Env, m: Vec<u8>) -> AnyResult<Binary> {
        self.inner.query(d, e, m)
    }
    fn sudo(&self, d: DepsMut, _e: Env, m: Vec<u8>) -> AnyResult<Response> {
        if let Ok(op) = from_json::<RawOp>(&m) {
            match op {
                RawOp::RawSet { key, value } => d.storage.set(key.as_slice(), value.as_slice()),
                RawOp::RawRemove { key } => d.storage.remove(key.as_slice()),
            }
            return Ok(Response::new());
        }
        let v: Value = from_json(&m)?;
        if let Some(on) = v.get("on").and_then(|x| x.as_bool()) {
            if on { d.storage.set(b"verif_fail", b"1"); } else { d.storage.remove(b"verif_fail"); }
        }
        if let Some(on) = v.get("sloppy").and_then(|x| x.as_bool()) {
            if on { d.storage.set(b"verif_sloppy", b"1"); } else { d.storage.remove(b"verif_sloppy"); }
        }
        Ok(Response::new())
    }
    fn reply(&self, d: DepsMut, e: Env, m: cosmwasm_std::Reply) -> AnyResult<Response> {
        self.inner.reply(d, e, m)
    }
    fn migrate(&self, d: DepsMut, e: Env, m: Vec<u8>) -> AnyResult<Response> {
        self.inner.migrate(d, e, m)
    }
}

#[derive(Clone)]
struct Pkt {
    packet: IbcPacket,
    done: bool,
}

pub struct Run {
    pub w: World,
    pub sc: Scale,
    pub ics: Addr,
    pub tok: Addr,
    pub code_id: u64,
    pub channels: Vec<String>,
    pkts: Vec<Pkt>,
    pub tok_fails: bool,
    pub seq: u64,
    /// a contract in an old storage format that has not been migrated yet ("none" | "v1" | "v2")
    pub legacy_pending: String,
}

thread_local! {
    static SWAP: std::cell::Cell<bool> = std::cell::Cell::new(false);
}
/// the counterparty's channel id; with `swap` the remote end of ch1 is called "ch2" and vice versa, so that a
/// remote id coincides with the id of another local channel
fn remote_of(ch: &str) -> String {
    if SWAP.with(|s| s.get()) {
        match ch { "ch1" => "ch2".into(), "ch2" => "ch1".into(), _ => format!("r{ch}") }
    } else {
        format!("r{ch}")
    }
}

impl Run {
    fn denom_chain(&self, d: &str) -> String {
        match d {
            "nat" => NAT.to_string(),
            "NAT" => NATUP.to_string(),
            "tok" => format!("cw20:{}", self.tok),
            other => other.to_string(),
        }
    }
    fn denom_model(&self, d: &str) -> String {
        if d == NAT {
            "nat".into()
        } else if d == NATUP {
            "NAT".into()
        } else if d == format!("cw20:{}", self.tok) {
            "tok".into()
        } else {
            format!("?{d}")
        }
    }

    pub fn start(cfg0: &Value, run_no: u64, out: &mut Out) -> Option<Run> {
        // a fixture run: the configuration the recorded state was produced with, plus the index of the state
        let fx = cfg0.get("fixture").and_then(|x| x.as_u64()).and_then(|k| fixture("ics20", k as usize).map(|f| (k, f)));
        let merged;
        let cfg: &Value = if let Some((k, f)) = &fx {
            let mut c = f["cfg"].clone();
            c["fixture"] = json!(k);
            merged = c;
            &merged
        } else {
            cfg0
        };
        let log2 = cfg.get("scale").and_then(|x| x.as_u64()).unwrap_or(0);
        let sc = Scale::new(1u128 << log2);
        SWAP.with(|s| s.set(cfg.get("swap").and_then(|x| x.as_bool()).unwrap_or(false)));
        let mut w = World::new();
        for u in USERS {
            w.user(u);
        }
        let creator = w.user("creator");
        let gov = w.user("gov");
        w.user("gov2");
        let code_id = w.app.store_code(ics20_code());
        let tok_id = w.app.store_code(FlakyToken::boxed());
        let users: Vec<Addr> = USERS.iter().map(|u| w.addr(u)).collect();
        let rich = 1u128 << 100;
        w.app.init_modules(|router, _, storage| {
            for u in &users {
                router.bank.init_balance(storage, u, vec![Coin::new(rich, NATUP), Coin::new(rich, NAT)]).unwrap();
            }
        });
        let tmsg = cw20_base::msg::InstantiateMsg {
            name: "Voucher".into(),
            symbol: "VCH".into(),
            decimals: 6,
            initial_balances: users.iter().map(|u| cw20::Cw20Coin { address: u.to_string(), amount: Uint128::new(rich) }).collect(),
            mint: None,
            marketing: None,
        };
        let tok = w.app.instantiate_contract(tok_id, creator.clone(), &tmsg, &[], "tok", None).unwrap();
        w.register("tok", &tok);
        let dg = cfg.get("defaultGas").and_then(|x| x.as_i64()).unwrap_or(-1);
        let allowlist: Vec<AllowMsg> = cfg["allow"].as_array().map(|a| a.iter().map(|e| AllowMsg { contract: tok.to_string(), gas_limit: gas_up(e["gas"].as_i64().unwrap_or(-1)) }).collect()).unwrap_or_default();
        let init = InitMsg { default_timeout: 100, gov_contract: gov.to_string(), allowlist, default_gas_limit: gas_up(dg) };
        let ics = w.app.instantiate_contract(code_id, creator.clone(), &init, &[], "ics20", Some(creator.to_string())).unwrap();
        w.register("ics", &ics);
        let channels: Vec<String> = cfg["channels"].as_array().unwrap().iter().map(|c| c.as_str().unwrap().to_string()).collect();
        for ch in &channels {
            let channel = IbcChannel::new(
                IbcEndpoint { port_id: OUR_PORT.into(), channel_id: ch.clone() },
                IbcEndpoint { port_id: REMOTE_PORT.into(), channel_id: remote_of(ch) },
                IbcOrder::Unordered,
                "ics20-1",
                "connection-0",
            );
            w.app.wasm_sudo(ics.clone(), &IbcSudo::Connect { channel }).unwrap();
        }
        let mut run = Run { w, sc, ics, tok, code_id, channels, pkts: vec![], tok_fails: false, seq: 0, legacy_pending: "none".into() };
        // pre-history (before a legacy layout is laid down): transfers on the current code
        if let Some(pre) = cfg.get("pre").and_then(|x| x.as_array()) {
            let mut sink = Out::create("/dev/null");
            for st in pre {
                run.step(st, &mut sink);
            }
        }
        let legacy = cfg.get("legacy").and_then(|x| x.as_str()).unwrap_or("none").to_string();
        run.legacy_pending = legacy.clone();
        if legacy == "v1" || legacy == "v2" {
            let ics = run.ics.clone();
            // the old formats credited a channel only when a success acknowledgement arrived: packets still
            // in flight are escrowed but not in the books (migrate's v2 step adds them)
            for ch in run.channels.clone() {
                for d in ["nat", "NAT", "tok"] {
                    let dc = run.denom_chain(d);
                    let inflight: u128 = run.pkts.iter().filter(|p| !p.done && p.packet.src.channel_id == ch).map(|p| {
                        let x: cw20_ics20::ibc::Ics20Packet = from_json(&p.packet.data).unwrap();
                        if x.denom == dc { x.amount.u128() } else { 0 }
                    }).sum();
                    if inflight == 0 {
                        continue;
                    }
                    let mut key = vec![0u8, 13];
                    key.extend_from_slice(b"channel_state");
                    key.extend_from_slice(&[0u8, ch.len() as u8]);
                    key.extend_from_slice(ch.as_bytes());
                    key.extend_from_slice(dc.as_bytes());
                    // (the old layouts are laid down by hand under the storage keys of the releases; if the code under
                    // test keeps its books elsewhere, this start state cannot be produced: no run - the fixture runs see it)
                    let Some(cur) = run.w.app.dump_wasm_raw(&ics).into_iter().find(|(k, _)| *k == key).map(|(_, v)| v) else { return None };
                    let v: Value = serde_json::from_slice(&cur).unwrap();
                    let o: u128 = v["outstanding"].as_str().unwrap().parse().unwrap();
                    let t: u128 = v["total_sent"].as_str().unwrap().parse().unwrap();
                    // (saturating: a contract that books less than it escrows must show up in the trace, not crash the harness)
                    let nv = json!({"outstanding": o.saturating_sub(inflight).to_string(), "total_sent": t.saturating_sub(inflight).to_string()});
                    run.w.app.wasm_sudo(ics.clone(), &RawOp::RawSet { key: Binary::from(key), value: Binary::from(serde_json::to_vec(&nv).unwrap()) }).unwrap();
                }
            }
        }
        if legacy == "v2" {
            // <= 0.13.0: today's layout, only the balance bookkeeping differs
            let ics = run.ics.clone();
            let ver = json!({"contract":"crates.io:cw20-ics20","version":"0.13.0"});
            run.w.app.wasm_sudo(ics, &RawOp::RawSet { key: Binary::from(b"contract_info".to_vec()), value: Binary::from(serde_json::to_vec(&ver).unwrap()) }).unwrap();
        }
        if legacy == "v1" {
            // <= 0.12.0-alpha1: config {default_timeout, gov_contract}, no cw-controllers admin, no allow list
            let ics = run.ics.clone();
            let v1cfg = json!({"default_timeout": 100, "gov_contract": run.w.addr("gov").to_string()});
            run.w.app.wasm_sudo(ics.clone(), &RawOp::RawSet { key: Binary::from(b"ics20_config".to_vec()), value: Binary::from(serde_json::to_vec(&v1cfg).unwrap()) }).unwrap();
            run.w.app.wasm_sudo(ics.clone(), &RawOp::RawRemove { key: Binary::from(b"admin".to_vec()) }).unwrap();
            let ver = json!({"contract":"crates.io:cw20-ics20","version":"0.11.1"});
            run.w.app.wasm_sudo(ics.clone(), &RawOp::RawSet { key: Binary::from(b"contract_info".to_vec()), value: Binary::from(serde_json::to_vec(&ver).unwrap()) }).unwrap();
            let ns = b"allow_list";
            let mut prefix = (ns.len() as u16).to_be_bytes().to_vec();
            prefix.extend_from_slice(ns);
            for (k, _) in run.w.app.dump_wasm_raw(&ics) {
                if k.starts_with(&prefix) {
                    run.w.app.wasm_sudo(ics.clone(), &RawOp::RawRemove { key: Binary::from(k) }).unwrap();
                }
            }
        }
        // a contract stored by any release from 0.13.1 on has today's layout and bookkeeping: upgrading it changes nothing
        if let Some(ver) = cfg.get("ver").and_then(|x| x.as_str()) {
            if legacy == "none" && ver != "cur" {
                let ics = run.ics.clone();
                let v = json!({"contract":"crates.io:cw20-ics20","version":ver});
                run.w.app.wasm_sudo(ics, &RawOp::RawSet { key: Binary::from(b"contract_info".to_vec()), value: Binary::from(serde_json::to_vec(&v).unwrap()) }).unwrap();
            }
        }
        if let Some((_, f)) = &fx {
            // the whole world of the recorded state: both contracts' storage, the bank, the packets in flight
            if names_of(&run.w) != f["names"] {
                eprintln!("fixtures/ics20.ndjson was recorded with other addresses: regenerate it (tools/mkfixtures.sh)");
                std::process::exit(2);
            }
            let (ics, tok) = (run.ics.clone(), run.tok.clone());
            load_raw(&mut run.w, &ics, &f["raw"]);
            load_raw(&mut run.w, &tok, &f["rawTok"]);
            let bank = f["bank"].as_object().unwrap().clone();
            let names = run.w.names.clone();
            run.w.app.init_modules(|router, _, storage| {
                for (addr, _) in &names {
                    if let Some(cs) = bank.get(addr) {
                        let coins: Vec<Coin> = cs.as_array().unwrap().iter().map(|c| Coin::new(c[1].as_str().unwrap().parse::<u128>().unwrap(), c[0].as_str().unwrap())).collect();
                        router.bank.init_balance(storage, &Addr::unchecked(addr.clone()), coins).unwrap();
                    }
                }
            });
            run.pkts = f["pkts"].as_array().unwrap().iter().map(|p| Pkt { packet: serde_json::from_value(p["packet"].clone()).unwrap(), done: p["done"].as_bool().unwrap() }).collect();
            run.seq = n(f, "seq");
            run.tok_fails = f["tokFails"].as_bool().unwrap();
            run.channels = f["channels"].as_array().unwrap().iter().map(|c| c.as_str().unwrap().to_string()).collect();
            run.w.set_clock(n(&f["now"], "h"), n(&f["now"], "t"));
            // a deployed contract gets new code through `migrate`: the state is compared after it has run
            let (creator, code) = (run.w.addr("creator"), run.code_id);
            let r = call(&mut run.w, |w| w.app.migrate_contract(creator, ics.clone(), &MigrateMsg { default_gas_limit: None }, code));
            if !r.ok {
                run.sc.anomalies.borrow_mut().push(format!("the upgrade of a deployment of the release was refused: {}", r.err));
            }
        }
        let mut cfgv = cfg.clone();
        if let Some((_, f)) = &fx {
            cfgv["expect"] = f["obs"].clone();
        }
        cfgv["pktMax"] = json!(if log2 >= 35 { ((u64::MAX as u128) / run.sc.u) as i64 } else { -1 });
        let obs = run.observe(legacy != "none");
        let anom = run.sc.take_anomalies();
        // packets of the pre-history are still in flight
        let prepkts: Vec<Value> = run.pkts.iter().map(|p| {
            let d: cw20_ics20::ibc::Ics20Packet = from_json(&p.packet.data).unwrap();
            json!({"ch": p.packet.src.channel_id, "denom": run.denom_model(&d.denom), "amt": run.sc.down(d.amount.u128(), "packet amount"), "sender": run.w.name_of(&d.sender), "done": p.done})
        }).collect();
        cfgv["prepkts"] = json!(prepkts);
        out.emit(&json!({"act":"reset","sys":"ics20","run":run_no,"cfg":cfgv,"ok":true,"panic":false,"err":"","now":run.w.now(),
            "out":[],"ack":"none","anom":anom,"obs":obs}));
        Some(run)
    }

    pub fn observe(&self, legacy: bool) -> Value {
        let w = &self.w;
        let mut chans = serde_json::Map::new();
        for ch in ["ch1", "ch2"] {
            let mut m = serde_json::Map::new();
            for d in ["nat", "NAT", "tok"] {
                m.insert(d.into(), json!({"out":0,"sent":0}));
            }
            if self.channels.iter().any(|c| c == ch) {
                let r: ChannelResponse = w.smart(&self.ics, &QueryMsg::Channel { id: ch.to_string() }).unwrap();
                for (b, t) in r.balances.iter().zip(r.total_sent.iter()) {
                    let d = self.denom_model(&b.denom());
                    m.insert(d, json!({"out": self.sc.down(b.amount().u128(), "outstanding"), "sent": self.sc.down(t.amount().u128(), "total_sent")}));
                }
            }
            chans.insert(ch.into(), Value::Object(m));
        }
        let bal_nat = |a: &Addr| -> u128 { w.app.wrap().query_balance(a, NAT).unwrap().amount.u128() };
        let bal_natup = |a: &Addr| -> u128 { w.app.wrap().query_balance(a, NATUP).unwrap().amount.u128() };
        let bal_tok = |a: &Addr| -> u128 {
            let r: cw20::BalanceResponse = w.smart(&self.tok, &cw20::Cw20QueryMsg::Balance { address: a.to_string() }).unwrap();
            r.balance.u128()
        };
        let rich = 1u128 << 100;
        let mut ubal = serde_json::Map::new();
        for u in USERS {
            let a = w.addr(u);
            // user balances are reported relative to their initial funding, so that they fit the model's integers
            let dn = bal_nat(&a) as i128 - rich as i128;
            let dt = bal_tok(&a) as i128 - rich as i128;
            let du = bal_natup(&a) as i128 - rich as i128;
            let f = |x: i128| -> i64 {
                let sgn = if x < 0 { -1 } else { 1 };
                sgn * self.sc.down(x.unsigned_abs(), "user balance")
            };
            ubal.insert(u.to_string(), json!({"nat": f(dn), "NAT": f(du), "tok": f(dt)}));
        }
        let held = json!({"nat": self.sc.down(bal_nat(&self.ics), "held"), "NAT": self.sc.down(bal_natup(&self.ics), "held"), "tok": self.sc.down(bal_tok(&self.ics), "held")});
        let (dgas, admin, listed, gas) = if self.legacy_pending == "v1" {
            (-1i64, "legacy".to_string(), false, -1i64)
        } else {
            let c: ConfigResponse = w.smart(&self.ics, &QueryMsg::Config {}).unwrap();
            let a: AllowedResponse = w.smart(&self.ics, &QueryMsg::Allowed { contract: self.tok.to_string() }).unwrap();
            (gas_down(c.default_gas_limit), if c.gov_contract.is_empty() { "none".to_string() } else { w.name_of(&c.gov_contract) }, a.is_allowed, gas_down(a.gas_limit))
        };
        let inflight: Vec<Value> = self.pkts.iter().enumerate().filter(|(_, p)| !p.done).map(|(i, _)| json!(i + 1)).collect();
        let lc: Result<cw20_ics20::msg::ListChannelsResponse, _> = w.smart(&self.ics, &QueryMsg::ListChannels {});
        let mut regs: Vec<String> = lc.map(|l| l.channels.into_iter().map(|c| format!("{}>{}:{}", c.id, c.counterparty_endpoint.port_id, c.counterparty_endpoint.channel_id)).collect()).unwrap_or_default();
        regs.sort();
        json!({"regs": regs, "chan": Value::Object(chans), "held": held, "ubal": Value::Object(ubal), "defaultGas": dgas, "admin": admin,
            "allow": {"listed": listed, "gas": gas}, "tokFails": self.tok_fails, "inflight": inflight, "legacy": legacy})
    }

    fn is_legacy(&self) -> bool {
        self.legacy_pending != "none"
    }

    pub fn step(&mut self, st: &Value, out: &mut Out) -> Value {
        let act = s(st, "act");
        let mut args = st.get("args").cloned().unwrap_or(json!({}));
        let by = opt_s(st, "by").unwrap_or_else(|| "relayer".into());
        let ics = self.ics.clone();
        let mut ackv = "none".to_string();
        let r: CallOut = match act.as_str() {
            "advance" => {
                self.w.advance(n(&args, "dh"), n(&args, "dt"));
                CallOut { ok: true, panic: false, err: String::new(), log: vec![], data: None }
            }
            "tokfail" => {
                let on = args["on"].as_bool().unwrap_or(false);
                self.w.app.wasm_sudo(self.tok.clone(), &json!({"on": on})).unwrap();
                self.tok_fails = on;
                CallOut { ok: true, panic: false, err: String::new(), log: vec![], data: None }
            }
            "transfer" => {
                let d = s(&args, "denom");
                let amt = Uint128::new(self.sc.up(n(&args, "amt")));
                let tm = TransferMsg {
                    channel: s(&args, "ch"),
                    remote_address: s(&args, "to"),
                    timeout: args.get("timeout").and_then(|x| x.as_u64()),
                    memo: opt_s(&args, "memo"),
                };
                let sender = self.w.addr(&by);
                if d == "nat" || d == "NAT" {
                    let funds = coins(amt.u128(), if d == "nat" { NAT } else { NATUP });
                    call(&mut self.w, |w| w.app.execute_contract(sender, ics.clone(), &ExecuteMsg::Transfer(tm), &funds))
                } else {
                    let m = cw20::Cw20ExecuteMsg::Send { contract: ics.to_string(), amount: amt, msg: to_json_binary(&tm).unwrap() };
                    let tok = self.tok.clone();
                    call(&mut self.w, |w| w.app.execute_contract(sender, tok, &m, &[]))
                }
            }
            "donate" => {
                // money that reaches the contract outside any transfer: a plain bank send / cw20 Transfer
                let d = s(&args, "denom");
                let amt = self.sc.up(n(&args, "amt"));
                let sender = self.w.addr(&by);
                if d == "nat" || d == "NAT" {
                    let m = cosmwasm_std::BankMsg::Send { to_address: ics.to_string(), amount: coins(amt, if d == "nat" { NAT } else { NATUP }) };
                    call(&mut self.w, |w| w.app.execute(sender, m.into()))
                } else {
                    let m = cw20::Cw20ExecuteMsg::Transfer { recipient: ics.to_string(), amount: Uint128::new(amt) };
                    let tok = self.tok.clone();
                    call(&mut self.w, |w| w.app.execute_contract(sender, tok, &m, &[]))
                }
            }
            "recv" => {
                let ch = s(&args, "ch");
                let base = s(&args, "denom");
                let base_chain = match base.as_str() {
                    "nat" | "NAT" | "tok" => self.denom_chain(&base),
                    _ => "ufoo".to_string(),
                };
                let other = if ch == "ch1" { "ch2" } else { "ch1" };
                let denom = match s(&args, "form").as_str() {
                    "ok" => format!("{REMOTE_PORT}/{}/{}", remote_of(&ch), base_chain),
                    "otherport" => format!("xfer/{}/{}", remote_of(&ch), base_chain),
                    "otherchan" => format!("{REMOTE_PORT}/{}/{}", remote_of(other), base_chain),
                    // right prefix, but the base denomination has more path segments than the one we escrowed
                    "suffix" => format!("{REMOTE_PORT}/{}/{}/lp", remote_of(&ch), base_chain),
                    "infix" => format!("{REMOTE_PORT}/{}/factory/x/{}", remote_of(&ch), base_chain),
                    _ => base_chain.clone(), // "foreign": no prefix at all
                };
                let amount = Uint128::new(self.sc.up(n(&args, "amt")));
                // ("bad": a receiver string this chain does not accept as an address)
                let rcv = if s(&args, "to") == "bad" { "NOT-AN-ADDRESS".to_string() } else { self.w.addr(&s(&args, "to")).to_string() };
                let data = cw20_ics20::ibc::Ics20Packet::new(amount, denom, "remote-sender", &rcv);
                self.seq += 1;
                let packet = IbcPacket::new(
                    to_json_binary(&data).unwrap(),
                    IbcEndpoint { port_id: REMOTE_PORT.into(), channel_id: remote_of(&ch) },
                    IbcEndpoint { port_id: OUR_PORT.into(), channel_id: ch.clone() },
                    self.seq,
                    IbcTimeout::with_timestamp(Timestamp::from_seconds(T0 + 100_000)),
                );
                let r = call(&mut self.w, |w| w.app.wasm_sudo(ics.clone(), &IbcSudo::Receive { packet }));
                if r.ok {
                    let v: Option<Value> = r.data.as_ref().and_then(|d| from_json::<Value>(d).ok());
                    ackv = match v {
                        Some(v) if v.get("result").is_some() => "ok".into(),
                        Some(v) if v.get("error").is_some() => "err".into(),
                        _ => "garbled".into(),
                    };
                }
                r
            }
            "ack" | "timeout" => {
                let idx = n(&args, "pkt") as usize;
                if idx == 0 || idx > self.pkts.len() || self.pkts[idx - 1].done {
                    // IBC core delivers exactly one acknowledgement or timeout per sent packet: not deliverable
                    let legacy = self.is_legacy();
                    let obs = self.observe(legacy);
                    let anom = self.sc.take_anomalies();
                    out.emit(&json!({"act":"skip","by":by,"args":args,"ok":true,"panic":false,"err":"no such packet in flight","now":self.w.now(),"out":[],"ack":"none","anom":anom,"obs":obs}));
                    return obs;
                }
                let packet = self.pkts[idx - 1].packet.clone();
                let data: cw20_ics20::ibc::Ics20Packet = from_json(&packet.data).unwrap();
                args["ch"] = json!(packet.src.channel_id.clone());
                args["denom"] = json!(self.denom_model(&data.denom));
                args["amt"] = json!(self.sc.down(data.amount.u128(), "packet amount"));
                args["sender"] = json!(self.w.name_of(&data.sender));
                let r = if act == "timeout" {
                    call(&mut self.w, |w| w.app.wasm_sudo(ics.clone(), &IbcSudo::Timeout { packet }))
                } else {
                    let good = args["success"].as_bool().unwrap_or(true);
                    let ack = if good { to_json_binary(&json!({"result":"MQ=="})).unwrap() } else { to_json_binary(&json!({"error":"remote refused"})).unwrap() };
                    call(&mut self.w, |w| w.app.wasm_sudo(ics.clone(), &IbcSudo::Ack { ack, packet }))
                };
                if r.ok {
                    // the relayer retries a failed delivery later; a committed one is final
                    self.pkts[idx - 1].done = true;
                }
                r
            }
            "chan_open" | "chan_connect" => {
                let ch = s(&args, "ch");
                let order = if s(&args, "order") == "ordered" { IbcOrder::Ordered } else { IbcOrder::Unordered };
                let channel = IbcChannel::new(
                    IbcEndpoint { port_id: OUR_PORT.into(), channel_id: ch.clone() },
                    IbcEndpoint { port_id: REMOTE_PORT.into(), channel_id: remote_of(&ch) },
                    order,
                    s(&args, "version"),
                    "connection-0",
                );
                if act == "chan_open" {
                    let cpv = match s(&args, "cpv").as_str() { "none" => None, v => Some(v.to_string()) };
                    call(&mut self.w, |w| w.app.wasm_sudo(ics.clone(), &IbcSudo::Open { channel, counterparty_version: cpv }))
                } else {
                    let r = call(&mut self.w, |w| w.app.wasm_sudo(ics.clone(), &IbcSudo::Connect { channel }));
                    if r.ok && !self.channels.contains(&ch) {
                        self.channels.push(ch);
                    }
                    r
                }
            }
            "allow" => {
                let sender = self.w.addr(&by);
                let g = args["gas"].as_i64().unwrap_or(-1);
                let m = ExecuteMsg::Allow(AllowMsg { contract: self.tok.to_string(), gas_limit: gas_up(g) });
                call(&mut self.w, |w| w.app.execute_contract(sender, ics.clone(), &m, &[]))
            }
            "update_admin" => {
                let sender = self.w.addr(&by);
                // "none": the empty string (there is no way to step down: it must be refused)
                let new = s(&args, "new");
                let m = ExecuteMsg::UpdateAdmin { admin: if new == "none" { String::new() } else { self.w.addr(&new).to_string() } };
                call(&mut self.w, |w| w.app.execute_contract(sender, ics.clone(), &m, &[]))
            }
            "migrate" => {
                let creator = self.w.addr("creator");
                let g = args["gas"].as_i64().unwrap_or(-1);
                let code = self.code_id;
                let m = MigrateMsg { default_gas_limit: gas_up(g) };
                let r = call(&mut self.w, |w| w.app.migrate_contract(creator, ics.clone(), &m, code));
                if r.ok {
                    self.legacy_pending = "none".into();
                }
                r
            }
            other => panic!("ics20: unknown action {other}"),
        };
        // what the ics20 contract emitted in this transaction
        let mut outv: Vec<Value> = vec![];
        for l in &r.log {
            if l.tag != "ics20" {
                continue;
            }
            if let Some(ms) = l.messages.as_array() {
                for m in ms {
                    outv.push(self.decode(m));
                }
            }
        }
        // remember packets we sent
        if r.ok && act == "transfer" {
            for l in &r.log {
                if l.tag != "ics20" {
                    continue;
                }
                for m in l.messages.as_array().unwrap_or(&vec![]) {
                    if let Some(sp) = m["msg"]["ibc"].get("send_packet") {
                        let ch = sp["channel_id"].as_str().unwrap_or("").to_string();
                        self.seq += 1;
                        let packet = IbcPacket::new(
                            Binary::from_base64(sp["data"].as_str().unwrap_or("")).unwrap_or_default(),
                            IbcEndpoint { port_id: OUR_PORT.into(), channel_id: ch.clone() },
                            IbcEndpoint { port_id: REMOTE_PORT.into(), channel_id: remote_of(&ch) },
                            self.seq,
                            IbcTimeout::with_timestamp(Timestamp::from_seconds(T0 + 100_000)),
                        );
                        self.pkts.push(Pkt { packet, done: false });
                    }
                }
            }
        }
        let legacy = self.is_legacy();
        let obs = self.observe(legacy);
        let anom = self.sc.take_anomalies();
        out.emit(&json!({"act":act,"by":by,"args":args,"ok":r.ok,"panic":r.panic,"err":r.err,"now":self.w.now(),
            "out":outv,"ack":ackv,"anom":anom,"obs":obs}));
        obs
    }

    /// decode a SubMsg emitted by the ics20 contract into a record [k, ch, denom, amt, a, b, memo, timeout, gas]
    fn decode(&self, m: &Value) -> Value {
        let gas = gas_down(m["gas_limit"].as_u64());
        let msg = &m["msg"];
        let rec = |k: &str, ch: String, denom: String, amt: i64, a: String, b: String, memo: String, timeout: i64| json!({"k":k,"ch":ch,"denom":denom,"amt":amt,"a":a,"b":b,"memo":memo,"timeout":timeout,"gas":gas});
        if let Some(sp) = msg["ibc"].get("send_packet") {
            let data: Value = Binary::from_base64(sp["data"].as_str().unwrap_or("")).ok().and_then(|b| from_json::<Value>(&b).ok()).unwrap_or(Value::Null);
            let amount: u128 = data["amount"].as_str().unwrap_or("0").parse().unwrap_or(0);
            let ts: u64 = sp["timeout"]["timestamp"].as_str().unwrap_or("0").parse().unwrap_or(0);
            let now_nanos = (T0 * TICKS + self.w.t) * TICK_NANOS;
            let rel = if ts >= now_nanos && (ts - now_nanos) % 1_000_000_000 == 0 { ((ts - now_nanos) / 1_000_000_000) as i64 } else { -2 };
            let blk = if sp["timeout"]["block"].is_null() { 0 } else { 1 };
            return rec("packet", sp["channel_id"].as_str().unwrap_or("").to_string(), self.denom_model(data["denom"].as_str().unwrap_or("")),
                self.sc.down(amount, "packet amount"), self.w.name_of(data["sender"].as_str().unwrap_or("")), data["receiver"].as_str().unwrap_or("").to_string(),
                data["memo"].as_str().unwrap_or("").to_string(), if blk == 1 { -1 } else { rel });
        }
        if let Some(b) = msg["bank"].get("send") {
            let c = &b["amount"][0];
            let amount: u128 = c["amount"].as_str().unwrap_or("0").parse().unwrap_or(0);
            return rec("payout", "".into(), self.denom_model(c["denom"].as_str().unwrap_or("")), self.sc.down(amount, "payout"), self.w.name_of(b["to_address"].as_str().unwrap_or("")), "".into(), "".into(), 0);
        }
        if let Some(ex) = msg["wasm"].get("execute") {
            let body: Value = Binary::from_base64(ex["msg"].as_str().unwrap_or("")).ok().and_then(|b| from_json::<Value>(&b).ok()).unwrap_or(Value::Null);
            if let Some(t) = body.get("transfer") {
                let amount: u128 = t["amount"].as_str().unwrap_or("0").parse().unwrap_or(0);
                let d = format!("cw20:{}", ex["contract_addr"].as_str().unwrap_or(""));
                return rec("payout", "".into(), self.denom_model(&d), self.sc.down(amount, "payout"), self.w.name_of(t["recipient"].as_str().unwrap_or("")), "".into(), "".into(), 0);
            }
        }
        rec("other", "".into(), "".into(), 0, "".into(), "".into(), "".into(), 0)
    }
}

// ------------------------------------------------------------------------------ random driver
pub fn rand_cfg(rng: &mut Rng) -> Value {
    let legacy = match rng.below(8) { 0 | 1 => "v1", 2 => "v2", _ => "none" };
    // the supported upgrade path from the old formats requires a single open channel
    let channels = if (legacy != "none" && rng.chance(2, 3)) || rng.chance(1, 2) { json!(["ch1"]) } else { json!(["ch1", "ch2"]) };
    let swap = rng.chance(1, 3);
    let two = channels.as_array().unwrap().len() == 2;
    let dg: i64 = if rng.chance(1, 2) { -1 } else { *rng.pick(&[100i64, 500]) };
    let allow = if rng.chance(1, 2) { json!([{"gas": *rng.pick(&[-1i64, 200, 800])}]) } else { json!([]) };
    let scale = if rng.chance(1, 4) { 40 } else { 0 };
    let mut pre = vec![];
    if legacy != "none" {
        let k = rng.range(1, 4);
        for _ in 0..k {
            pre.push(json!({"act":"transfer","by":rng.pick(&USERS),"args":{"denom":rng.pick(&["nat","tok","tok"]),"ch":if two { *rng.pick(&["ch1","ch2"]) } else { "ch1" },"amt":rng.range(1,5),"to":"remote1"}}));
        }
        for i in 1..=k {
            if rng.chance(1, 3) {
                pre.push(json!({"act":"ack","by":"relayer","args":{"pkt":i,"success":true}}));
            }
        }
    }
    // a token can only have been sent (pre-history) if it was sendable then
    let (dg, allow) = if legacy == "v1" { (100, json!([{"gas":-1}])) } else if legacy == "v2" { (dg, json!([{"gas":200}])) } else { (dg, allow) };
    let ver = *rng.pick(&["cur", "cur", "0.13.1", "0.13.2", "0.13.4", "0.14.0", "0.16.0", "1.0.0", "1.1.2"]);
    json!({"channels":channels,"defaultGas":dg,"allow":allow,"legacy":legacy,"scale":scale,"pre":pre,"swap":swap,"ver":ver})
}

pub fn random_run(rng: &mut Rng, run_no: u64, len: usize, out: &mut Out) {
    let nfx = fixture_count("ics20") as u64;
    let cfg = if nfx > 0 && rng.chance(1, 6) { json!({"fixture": rng.below(nfx), "legacy": "none"}) } else { rand_cfg(rng) };
    let Some(mut run) = Run::start(&cfg, run_no, out) else { return };
    if cfg.get("fixture").is_some() && rng.chance(1, 2) {
        // the upgrade itself: the current code is installed over the recorded state
        run.step(&json!({"act":"migrate","by":"creator","args":{"gas":-1}}), out);
    }
    drive(&mut run, &cfg, rng, len, out);
}

/// records states of the whole ics20 world as the current tree writes them (tools/mkfixtures.sh, unchanged tree only)
pub fn make_fixtures(rng: &mut Rng, count: usize, len: usize, path: &str) {
    let mut lines = String::new();
    let mut sink = Out::create("/dev/null");
    let mut k = 0;
    while k < count {
        let mut cfg = rand_cfg(rng);
        cfg["legacy"] = json!("none");
        cfg["pre"] = json!([]);
        cfg["ver"] = json!("cur");
        let Some(mut run) = Run::start(&cfg, k as u64, &mut sink) else { continue };
        drive(&mut run, &cfg, rng, len, &mut sink);
        let mut bank = serde_json::Map::new();
        for (addr, _) in run.w.names.clone() {
            let bs = run.w.app.wrap().query_all_balances(addr.clone()).unwrap_or_default();
            bank.insert(addr, Value::Array(bs.iter().map(|c| json!([c.denom, c.amount.to_string()])).collect()));
        }
        let pk: Vec<Value> = run.pkts.iter().map(|p| json!({"packet": p.packet, "done": p.done})).collect();
        let fx = json!({"cfg": cfg, "now": run.w.now(), "names": names_of(&run.w), "raw": dump_raw(&run.w, &run.ics), "rawTok": dump_raw(&run.w, &run.tok),
            "bank": Value::Object(bank), "pkts": pk, "seq": run.seq, "tokFails": run.tok_fails, "channels": run.channels, "obs": run.observe(false)});
        if !run.sc.take_anomalies().is_empty() {
            continue;
        }
        lines.push_str(&serde_json::to_string(&fx).unwrap());
        lines.push('\n');
        k += 1;
    }
    std::fs::write(path, lines).unwrap();
}

fn drive(run: &mut Run, cfg: &Value, rng: &mut Rng, len: usize, out: &mut Out) {
    let legacy = s(cfg, "legacy") != "none";
    if legacy {
        let g = if rng.chance(1, 2) { -1 } else { 300 };
        run.step(&json!({"act":"migrate","by":"creator","args":{"gas":g}}), out);
        if run.is_legacy() {
            // the upgrade was refused (several channels open): nothing else can be done with this contract
            return;
        }
    }
    let pkt_max = if run.sc.u > 1 { ((u64::MAX as u128) / run.sc.u) as u64 } else { 0 };
    let lg = run.is_legacy();
    let mut obs = run.observe(lg);
    for _ in 0..len {
        let chs: Vec<String> = run.channels.clone();
        let ch = if rng.chance(1, 15) { "ch9".to_string() } else { rng.pick(&chs).clone() };
        let d = *rng.pick(&["nat", "nat", "NAT", "tok", "tok", "tok"]);
        let outst = obs["chan"].get(&ch).map(|c| c[d]["out"].as_i64().unwrap_or(0)).unwrap_or(0);
        let st = match rng.below(100) {
            0..=29 => {
                let amt = if pkt_max > 0 && rng.chance(1, 4) { *rng.pick(&[pkt_max, pkt_max + 1, pkt_max - 1]) } else { rng.range(0, 6) };
                // (receivers are opaque strings of the other chain: mixed case, hex, anything)
                let to = match rng.below(5) { 0 => "Remote1".to_string(), 1 => "0x5aAeb6053F3E94C9b9A09f33669435E7Ef1BeAed".to_string(), _ => format!("remote{}", rng.below(3)) };
                let mut a = json!({"denom":d,"ch":ch,"amt":amt,"to":to});
                if rng.chance(1, 3) { a["timeout"] = json!(rng.range(1, 500)); }
                if rng.chance(1, 3) { a["memo"] = json!(format!("memo{}", rng.below(3))); }
                json!({"act":"transfer","by":rng.pick(&USERS),"args":a})
            }
            30..=54 => {
                let form = *rng.pick(&["ok", "ok", "ok", "ok", "ok", "otherport", "otherchan", "foreign", "suffix", "infix"]);
                let dd = if rng.chance(1, 10) { "foo" } else { d };
                let amt = match rng.below(5) { 0 => outst.max(0) as u64 + 1, 1 => outst.max(0) as u64, 2 => 0, _ => rng.range(0, outst.max(1) as u64) };
                // a cw20 payout to a receiver that is no address of this chain fails in the token: error ack, nothing moves
                let to = if dd == "tok" && rng.chance(1, 10) { "bad" } else { *rng.pick(&USERS) };
                json!({"act":"recv","by":"relayer","args":{"ch":ch,"form":form,"denom":dd,"amt":amt,"to":to}})
            }
            55..=72 => {
                let inflight: Vec<u64> = obs["inflight"].as_array().unwrap().iter().map(|x| x.as_u64().unwrap()).collect();
                let pkt = if !inflight.is_empty() && rng.chance(9, 10) { inflight[rng.below(inflight.len() as u64) as usize] } else { rng.range(1, 6) };
                match rng.below(3) {
                    0 => json!({"act":"timeout","by":"relayer","args":{"pkt":pkt}}),
                    1 => json!({"act":"ack","by":"relayer","args":{"pkt":pkt,"success":false}}),
                    _ => json!({"act":"ack","by":"relayer","args":{"pkt":pkt,"success":true}}),
                }
            }
            73..=80 => json!({"act":"tokfail","by":"env","args":{"on":rng.chance(1,2)}}),
            81..=88 => json!({"act":"allow","by":rng.pick(&["gov","gov","gov2","u1"]),"args":{"gas":*rng.pick(&[-1i64,0,100,200,800,1000,GAS_TOP])}}),
            89..=92 => json!({"act":"update_admin","by":rng.pick(&["gov","gov2","u1"]),"args":{"new":rng.pick(&["gov","gov2","gov2","none"])}}),
            93..=94 => json!({"act":"migrate","by":"creator","args":{"gas":*rng.pick(&[-1i64,300,50])}}),
            96 => json!({"act":"donate","by":rng.pick(&USERS),"args":{"denom":d,"amt":rng.range(0,4)}}),
            95 => {
                let a = json!({"ch":rng.pick(&["ch1","ch2"]),"version":rng.pick(&["ics20-1","ics20-1","ics20-2"]),"order":rng.pick(&["unordered","unordered","ordered"]),"cpv":rng.pick(&["none","ics20-1","ics20-9"])});
                json!({"act": if rng.chance(1, 2) {"chan_open"} else {"chan_connect"}, "by":"relayer", "args": a})
            }
            _ => json!({"act":"advance","by":"env","args":{"dh":1,"dt":rng.range(1,20)}}),
        };
        obs = run.step(&st, out);
    }
}

pub fn run_schedule(sched: &Value, run_no: u64, out: &mut Out) {
    let Some(mut run) = Run::start(&sched["cfg"], run_no, out) else { return };
    for st in sched["steps"].as_array().unwrap() {
        if s(st, "act") == "skip" {
            continue;
        }
        run.step(st, out);
    }
}
