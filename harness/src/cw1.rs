//! cw1-whitelist / cw1-subkeys: executes schedules / random runs on the real proxies and records the
//! projected abstract state after every call (properties C07 C08 C16 C17).
//!
//! The proxies are wrapped with the recorder (`Recorded`): every Response they return is logged; a
//! cw1-local wrapper then drops the relayed messages, so nothing has to be funded, staked or deployed
//! for a relayed message to be observed - EXCEPT wasm executes addressed to the proxy itself
//! (re-entrant UpdateAdmins / Freeze / IncreaseAllowance / SetPermissions): these stay in the Response
//! and are really dispatched by cw-multi-test with the proxy as sender.  `out` of an event is the list of messages the proxy returned, decoded from
//! the typed `SubMsg`s (independently of the encoder of the submitted messages) into the same abstract
//! records `{"k","to","coins","tag"}`.
//!
//! "canq" events: `CanExecute{sender,msg}` followed by a dry run of `Execute{msgs:[msg]}` on the very
//! same state: the real entry point runs inside the App's transaction, the outcome is noted, and the
//! wrapper then fails the call so that the App rolls everything back (`ok` = the dry run succeeded).
use crate::common::*;
use cosmwasm_std::{
    coin, Addr, BankMsg, Binary, Coin, CosmosMsg, Deps, DepsMut, DistributionMsg, Empty, Env, GovMsg,
    IbcMsg, IbcTimeout, MessageInfo, Reply, ReplyOn, Response, StakingMsg, SubMsg, Timestamp, Uint128,
    VoteOption, WasmMsg,
};
use cw1::CanExecuteResponse;
use cw1_subkeys::msg::{AllAllowancesResponse, AllPermissionsResponse, ExecuteMsg, QueryMsg};
use cw1_subkeys::state::{Allowance, Permissions};
use cw1_whitelist::msg::{AdminListResponse, InstantiateMsg};
use cw_multi_test::{Contract, Executor};
use serde_json::{json, Value};
use std::cell::Cell;

pub const ADDRS: [&str; 4] = ["a1", "a2", "a3", "a4"];
pub const DENOMS: [&str; 2] = ["d1", "d2"];
/// other named targets of relayed messages (recipient, validators, a contract)
pub const TARGETS: [&str; 4] = ["r1", "v1", "v2", "k1"];
const IBC_TIMEOUT: u64 = T0 + 1_000_000;

thread_local! {
    static PROBE: Cell<bool> = Cell::new(false);
    static PROBE_OK: Cell<bool> = Cell::new(false);
    /// number of proxy executes started in this step (0 = the next one is the call made by the
    /// driver; relayed self-calls are dispatched after it has returned)
    static DEPTH: Cell<u32> = Cell::new(0);
    /// did the outermost execute entry point return Ok (the proxy's own decision, whatever
    /// happens to the messages it relays afterwards)
    static RET: Cell<bool> = Cell::new(false);
}

/// Dry-run wrapper: while PROBE is set, a successful `execute` of the wrapped contract is noted and
/// then turned into a failure, so the App discards every state change of the call.
struct Prober {
    inner: Box<dyn Contract<Empty>>,
}
impl Contract<Empty> for Prober {
    fn execute(&self, deps: DepsMut, env: Env, info: MessageInfo, msg: Vec<u8>) -> AnyResult<Response> {
        let me = env.contract.address.to_string();
        let depth = DEPTH.with(|d| d.get());
        DEPTH.with(|d| d.set(depth + 1));
        let r = self.inner.execute(deps, env, info, msg);
        if depth == 0 {
            RET.with(|x| x.set(r.is_ok()));
        }
        let mut r = r?;
        if PROBE.with(|p| p.get()) {
            PROBE_OK.with(|p| p.set(true));
            anyhow::bail!("dry run: rolled back");
        }
        // relayed messages are dropped (they were logged by the recorder) except re-entrant calls
        r.messages.retain(|sm| matches!(&sm.msg, CosmosMsg::Wasm(WasmMsg::Execute { contract_addr, .. }) if *contract_addr == me));
        Ok(r)
    }
    fn instantiate(&self, deps: DepsMut, env: Env, info: MessageInfo, msg: Vec<u8>) -> AnyResult<Response> {
        self.inner.instantiate(deps, env, info, msg)
    }
    fn query(&self, deps: Deps, env: Env, msg: Vec<u8>) -> AnyResult<Binary> {
        self.inner.query(deps, env, msg)
    }
    fn sudo(&self, deps: DepsMut, env: Env, msg: Vec<u8>) -> AnyResult<Response> {
        self.inner.sudo(deps, env, msg)
    }
    fn reply(&self, deps: DepsMut, env: Env, msg: Reply) -> AnyResult<Response> {
        self.inner.reply(deps, env, msg)
    }
    fn migrate(&self, deps: DepsMut, env: Env, msg: Vec<u8>) -> AnyResult<Response> {
        self.inner.migrate(deps, env, msg)
    }
}

fn proxy_code(flavour: &str) -> Box<dyn Contract<Empty>> {
    let real: Box<dyn Contract<Empty>> = if flavour == "whitelist" {
        crate::contract_code!(cw1_whitelist, has_reply_cw1_whitelist, has_sudo_cw1_whitelist, has_migrate_cw1_whitelist)
    } else {
        crate::contract_code!(cw1_subkeys, has_reply_cw1_subkeys, has_sudo_cw1_subkeys, has_migrate_cw1_subkeys)
    };
    Box::new(Prober { inner: Recorded::new("cw1", real) })
}

pub struct Run {
    pub w: World,
    pub sc: Scale,
    pub flavour: String,
    pub proxy: Option<Addr>,
    /// driver memory: the last non-empty allowance reported per key (the queries hide expired
    /// allowances; the drivers keep aiming at them after the expiry)
    pub memo: std::collections::BTreeMap<String, [i64; 2]>,
}

fn ok_out() -> CallOut {
    CallOut { ok: true, panic: false, err: String::new(), log: vec![], data: None }
}

impl Run {
    fn px(&self) -> Addr {
        self.proxy.clone().unwrap()
    }
    fn subkeys(&self) -> bool {
        self.flavour == "subkeys"
    }
    /// model name -> chain address string ("bad" is an address the chain rejects)
    fn target(&self, name: &str) -> String {
        if name == "bad" {
            return "NOT-AN-ADDRESS".to_string();
        }
        match self.w.addrs.get(name) {
            Some(a) => a.to_string(),
            None => name.to_string(),
        }
    }
    fn coin_up(&self, c: &Value) -> Coin {
        Coin { denom: s(c, "d"), amount: Uint128::new(self.sc.up(n(c, "a"))) }
    }
    fn coin_down(&self, c: &Coin) -> Value {
        if !DENOMS.contains(&c.denom.as_str()) {
            self.sc.anomalies.borrow_mut().push(format!("unknown denomination {}", c.denom));
        }
        json!({"d": c.denom, "a": self.sc.down(c.amount.u128(), "coin")})
    }

    // ------------------------------------------------------------------ messages
    /// abstract message record -> CosmosMsg
    fn encode(&self, m: &Value) -> CosmosMsg {
        let k = s(m, "k");
        let to = self.target(&s(m, "to"));
        let tag = s(m, "tag");
        let coins: Vec<Coin> = m["coins"].as_array().map(|a| a.iter().map(|c| self.coin_up(c)).collect()).unwrap_or_default();
        let one = || coins.first().cloned().unwrap_or_else(|| coin(0, "d1"));
        match k.as_str() {
            "send" => BankMsg::Send { to_address: to, amount: coins }.into(),
            "burn" => BankMsg::Burn { amount: coins }.into(),
            "delegate" => StakingMsg::Delegate { validator: to, amount: one() }.into(),
            "undelegate" => StakingMsg::Undelegate { validator: to, amount: one() }.into(),
            "redelegate" => StakingMsg::Redelegate { src_validator: to, dst_validator: self.target(&tag), amount: one() }.into(),
            "withdraw" => DistributionMsg::WithdrawDelegatorReward { validator: to }.into(),
            "set_withdraw" => DistributionMsg::SetWithdrawAddress { address: to }.into(),
            "fund_pool" => DistributionMsg::FundCommunityPool { amount: coins }.into(),
            "wasm_exec" => WasmMsg::Execute { contract_addr: to, msg: bin(&tag), funds: coins }.into(),
            "ibc_transfer" => IbcMsg::Transfer {
                channel_id: tag,
                to_address: to,
                amount: one(),
                timeout: IbcTimeout::with_timestamp(Timestamp::from_seconds(IBC_TIMEOUT)),
                memo: None,
            }
            .into(),
            "vote" => {
                let (id, opt) = tag.split_once(':').unwrap_or(("1", "yes"));
                let option = match opt {
                    "yes" => VoteOption::Yes,
                    "no" => VoteOption::No,
                    "abstain" => VoteOption::Abstain,
                    _ => VoteOption::NoWithVeto,
                };
                GovMsg::Vote { proposal_id: id.parse().unwrap_or(1), option }.into()
            }
            "self_update_admins" | "self_freeze" | "self_increase" | "self_set_perm" | "self_execute" => {
                let inner: ExecuteMsg<Empty> = match k.as_str() {
                    // the proxy is asked to relay a batch to itself: the nested call's sender is the proxy
                    "self_execute" => ExecuteMsg::Execute { msgs: vec![BankMsg::Send { to_address: to, amount: coins }.into()] },
                    "self_update_admins" => ExecuteMsg::UpdateAdmins {
                        admins: tag.split(',').filter(|x| !x.is_empty()).map(|x| self.target(x)).collect(),
                    },
                    "self_freeze" => ExecuteMsg::Freeze {},
                    "self_increase" => ExecuteMsg::IncreaseAllowance {
                        spender: to,
                        amount: one(),
                        expires: if tag == "never" { Some(cw_utils::Expiration::Never {}) } else { None },
                    },
                    _ => ExecuteMsg::SetPermissions {
                        spender: to,
                        permissions: Permissions {
                            delegate: tag.contains('d'),
                            undelegate: tag.contains('u'),
                            redelegate: tag.contains('r'),
                            withdraw: tag.contains('w'),
                        },
                    },
                };
                WasmMsg::Execute { contract_addr: self.px().to_string(), msg: cosmwasm_std::to_json_binary(&inner).unwrap(), funds: vec![] }.into()
            }
            other => panic!("cw1: unknown message kind {other}"),
        }
    }

    /// a wasm execute addressed to the proxy itself -> abstract record, if it is one of the known calls
    fn decode_self(&self, msg: &Binary, funds: &[Coin]) -> Option<(String, String, Vec<Value>, String)> {
        if !funds.is_empty() {
            return None;
        }
        let inner: ExecuteMsg<Empty> = cosmwasm_std::from_json(msg).ok()?;
        Some(match inner {
            ExecuteMsg::UpdateAdmins { admins } => {
                ("self_update_admins".into(), "proxy".into(), vec![], admins.iter().map(|a| self.w.name_of(a)).collect::<Vec<_>>().join(","))
            }
            ExecuteMsg::Freeze {} => ("self_freeze".into(), "proxy".into(), vec![], "".into()),
            ExecuteMsg::Execute { msgs } => match msgs.as_slice() {
                [CosmosMsg::Bank(BankMsg::Send { to_address, amount })] => {
                    ("self_execute".into(), self.w.name_of(to_address), amount.iter().map(|c| self.coin_down(c)).collect(), "".into())
                }
                _ => return None,
            },
            ExecuteMsg::IncreaseAllowance { spender, amount, expires } => {
                let tag = match expires {
                    None => "keep",
                    Some(cw_utils::Expiration::Never {}) => "never",
                    _ => return None,
                };
                ("self_increase".into(), self.w.name_of(&spender), vec![self.coin_down(&amount)], tag.into())
            }
            ExecuteMsg::SetPermissions { spender, permissions: p } => {
                let mut tag = String::new();
                for (f, c) in [(p.delegate, 'd'), (p.undelegate, 'u'), (p.redelegate, 'r'), (p.withdraw, 'w')] {
                    if f {
                        tag.push(c);
                    }
                }
                ("self_set_perm".into(), self.w.name_of(&spender), vec![], tag)
            }
            _ => return None,
        })
    }

    /// SubMsg returned by the proxy -> abstract message record (written independently of `encode`)
    fn decode(&self, sm: &SubMsg) -> Value {
        let nm = |a: &str| self.w.name_of(a);
        let cs = |v: &[Coin]| -> Vec<Value> { v.iter().map(|c| self.coin_down(c)).collect() };
        let (k, to, coins, tag): (String, String, Vec<Value>, String) = match &sm.msg {
            CosmosMsg::Bank(BankMsg::Send { to_address, amount }) => ("send".into(), nm(to_address), cs(amount), "".into()),
            CosmosMsg::Bank(BankMsg::Burn { amount }) => ("burn".into(), "none".into(), cs(amount), "".into()),
            CosmosMsg::Staking(StakingMsg::Delegate { validator, amount }) => ("delegate".into(), nm(validator), cs(&[amount.clone()]), "".into()),
            CosmosMsg::Staking(StakingMsg::Undelegate { validator, amount }) => ("undelegate".into(), nm(validator), cs(&[amount.clone()]), "".into()),
            CosmosMsg::Staking(StakingMsg::Redelegate { src_validator, dst_validator, amount }) => {
                ("redelegate".into(), nm(src_validator), cs(&[amount.clone()]), nm(dst_validator))
            }
            CosmosMsg::Distribution(DistributionMsg::WithdrawDelegatorReward { validator }) => ("withdraw".into(), nm(validator), vec![], "".into()),
            CosmosMsg::Distribution(DistributionMsg::SetWithdrawAddress { address }) => ("set_withdraw".into(), nm(address), vec![], "".into()),
            CosmosMsg::Distribution(DistributionMsg::FundCommunityPool { amount }) => ("fund_pool".into(), "none".into(), cs(amount), "".into()),
            CosmosMsg::Wasm(WasmMsg::Execute { contract_addr, msg, funds })
                if self.proxy.as_ref().map(|p| p.as_str() == contract_addr).unwrap_or(false) && self.decode_self(msg, funds).is_some() =>
            {
                self.decode_self(msg, funds).unwrap()
            }
            CosmosMsg::Wasm(WasmMsg::Execute { contract_addr, msg, funds }) => {
                let payload = cosmwasm_std::from_json::<String>(msg).unwrap_or_else(|_| "?".into());
                ("wasm_exec".into(), nm(contract_addr), cs(funds), payload)
            }
            CosmosMsg::Ibc(IbcMsg::Transfer { channel_id, to_address, amount, timeout, memo }) => {
                let std_timeout = timeout.block().is_none() && timeout.timestamp() == Some(Timestamp::from_seconds(IBC_TIMEOUT));
                let kind = if std_timeout && memo.is_none() { "ibc_transfer" } else { "odd:ibc_transfer" };
                (kind.into(), nm(to_address), cs(&[amount.clone()]), channel_id.clone())
            }
            CosmosMsg::Gov(GovMsg::Vote { proposal_id, option }) => {
                let o = match option {
                    VoteOption::Yes => "yes",
                    VoteOption::No => "no",
                    VoteOption::Abstain => "abstain",
                    VoteOption::NoWithVeto => "veto",
                };
                ("vote".into(), "none".into(), vec![], format!("{proposal_id}:{o}"))
            }
            _ => ("odd:unknown".into(), "none".into(), vec![], "".into()),
        };
        let plain = sm.id == 0 && sm.gas_limit.is_none() && sm.reply_on == ReplyOn::Never && sm.payload.is_empty();
        let k = if plain { k } else { format!("odd:{k}") };
        json!({"k": k, "to": to, "coins": coins, "tag": tag})
    }

    /// the messages of the Response of the outermost call (the first one logged: nested calls are
    /// dispatched, and logged, after it was returned)
    fn out_of(&self, log: &[Logged]) -> Vec<Value> {
        let mut outv = vec![];
        for l in log.iter().filter(|l| l.tag == "cw1").take(1) {
            match serde_json::from_value::<Vec<SubMsg>>(l.messages.clone()) {
                Ok(ms) => {
                    for m in &ms {
                        outv.push(self.decode(m));
                    }
                }
                Err(_) => outv.push(json!({"k":"odd:undecodable","to":"none","coins":[],"tag":""})),
            }
        }
        outv
    }

    // ------------------------------------------------------------------ projection
    fn coins_map(&self, v: &[Coin], what: &str) -> Value {
        let mut m = serde_json::Map::new();
        for d in DENOMS {
            let tot: u128 = v.iter().filter(|c| c.denom == d).map(|c| c.amount.u128()).sum();
            m.insert(d.to_string(), json!(self.sc.down(tot, what)));
        }
        for c in v {
            if !DENOMS.contains(&c.denom.as_str()) {
                self.sc.anomalies.borrow_mut().push(format!("{what}: unknown denomination {}", c.denom));
            }
        }
        Value::Object(m)
    }

    fn zero_al() -> Value {
        json!({"c":{"d1":0,"d2":0},"exp":{"k":"never","v":0}})
    }
    fn zero_perm() -> Value {
        json!({"d":false,"u":false,"r":false,"w":false})
    }
    fn perm_v(p: &Permissions) -> Value {
        json!({"d":p.delegate,"u":p.undelegate,"r":p.redelegate,"w":p.withdraw})
    }

    /// projected abstract state, through public queries only
    pub fn observe(&self) -> Value {
        let w = &self.w;
        let p = self.px();
        let adm: AdminListResponse = w.smart(&p, &QueryMsg::<Empty>::AdminList {}).unwrap();
        let admins: Vec<String> = adm.admins.iter().map(|a| w.name_of(a)).collect();
        let mut al = serde_json::Map::new();
        let mut perm = serde_json::Map::new();
        let mut alist = vec![];
        let mut plist = vec![];
        for k in ADDRS {
            al.insert(k.to_string(), Self::zero_al());
            perm.insert(k.to_string(), Self::zero_perm());
        }
        if self.subkeys() {
            for k in ADDRS {
                let a: Allowance = w.smart(&p, &QueryMsg::<Empty>::Allowance { spender: w.addr(k).to_string() }).unwrap();
                al.insert(k.to_string(), json!({"c": self.coins_map(&a.balance.0, "allowance"), "exp": exp_to_model(&a.expires)}));
                let pm: Permissions = w.smart(&p, &QueryMsg::<Empty>::Permissions { spender: w.addr(k).to_string() }).unwrap();
                perm.insert(k.to_string(), Self::perm_v(&pm));
            }
            let mut cursor: Option<String> = None;
            loop {
                let r: AllAllowancesResponse = w.smart(&p, &QueryMsg::<Empty>::AllAllowances { start_after: cursor.clone(), limit: Some(3) }).unwrap();
                if r.allowances.is_empty() || alist.len() > 1000 {
                    break;
                }
                cursor = Some(r.allowances.last().unwrap().spender.clone());
                for a in r.allowances {
                    alist.push(json!({"s": w.name_of(&a.spender), "c": self.coins_map(&a.balance.0, "listed allowance"), "exp": exp_to_model(&a.expires)}));
                }
            }
            let mut cursor: Option<String> = None;
            loop {
                let r: AllPermissionsResponse = w.smart(&p, &QueryMsg::<Empty>::AllPermissions { start_after: cursor.clone(), limit: Some(3) }).unwrap();
                if r.permissions.is_empty() || plist.len() > 1000 {
                    break;
                }
                cursor = Some(r.permissions.last().unwrap().spender.clone());
                for a in r.permissions {
                    let mut v = Self::perm_v(&a.permissions);
                    v["s"] = json!(w.name_of(&a.spender));
                    plist.push(v);
                }
            }
        }
        json!({"admins": admins, "mutable": adm.mutable, "al": Value::Object(al), "perm": Value::Object(perm), "alist": alist, "plist": plist})
    }

    fn zero_obs() -> Value {
        let mut al = serde_json::Map::new();
        let mut perm = serde_json::Map::new();
        for k in ADDRS {
            al.insert(k.to_string(), Self::zero_al());
            perm.insert(k.to_string(), Self::zero_perm());
        }
        json!({"admins": [], "mutable": false, "al": Value::Object(al), "perm": Value::Object(perm), "alist": [], "plist": []})
    }

    /// Start a run: fresh world, proxy of the configured flavour instantiated from cfg. Emits the reset event.
    pub fn start(cfg0: &Value, run_no: u64, out: &mut Out) -> Option<Run> {
        // a fixture run: the configuration the recorded state was produced with, plus the index of the state
        let fx = cfg0.get("fixture").and_then(|x| x.as_u64()).and_then(|k| fixture("cw1", k as usize).map(|f| (k, f)));
        let merged;
        let cfg: &Value = if let Some((k, f)) = &fx {
            let mut c = f["cfg"].clone();
            c["fixture"] = json!(k);
            merged = c;
            &merged
        } else {
            cfg0
        };
        let log2 = cfg.get("scale").and_then(|x| x.as_u64()).unwrap_or(0);
        let sc = Scale::new(1u128 << log2);
        let flavour = s(cfg, "flavour");
        let mut w = World::new();
        for u in ADDRS.iter().chain(TARGETS.iter()) {
            w.user(u);
        }
        let creator = w.user("creator");
        let code_id = w.app.store_code(proxy_code(&flavour));
        let mut run = Run { w, sc, flavour: flavour.clone(), proxy: None, memo: Default::default() };
        let admins: Vec<String> = cfg["admins"].as_array().unwrap().iter().map(|a| run.target(a.as_str().unwrap())).collect();
        let msg = InstantiateMsg { admins, mutable: cfg["mutable"].as_bool().unwrap_or(true) };
        let r = call(&mut run.w, |w| {
            let a = w.app.instantiate_contract(code_id, creator.clone(), &msg, &[], "proxy", Some(creator.to_string()))?;
            w.register("proxy", &a);
            Ok(cw_multi_test::AppResponse::default())
        });
        let mut cfgv = cfg.clone();
        cfgv["maxAmt"] = json!(run.sc.max_amt());
        if !r.ok {
            out.emit(&json!({"act":"reset","sys":"cw1","run":run_no,"cfg":cfgv,"ok":false,"ret":false,"panic":r.panic,"err":r.err,"can":false,
                "now":run.w.now(),"out":[],"anom":[],"obs":Self::zero_obs()}));
            return None;
        }
        run.proxy = Some(run.w.addr("proxy"));
        run.w.names.insert("NOT-AN-ADDRESS".into(), "bad".into());
        // a deployment made by an older release: its version stamp and, optionally, an admin recorded in a
        // spelling today's address validation would refuse (the stored list is what counts, C17)
        let ver = cfg.get("ver").and_then(|x| x.as_str()).unwrap_or("cur");
        if ver != "cur" {
            let p = run.px();
            let name = if flavour == "whitelist" { "crates.io:cw1-whitelist" } else { "crates.io:cw1-subkeys" };
            let v = json!({"contract": name, "version": ver});
            run.w.app.wasm_sudo(p.clone(), &RawOp::RawSet { key: Binary::from(b"contract_info".to_vec()), value: Binary::from(serde_json::to_vec(&v).unwrap()) }).unwrap();
            if cfg.get("oldadmin").and_then(|x| x.as_bool()).unwrap_or(false) {
                let cur = run.w.app.dump_wasm_raw(&p).into_iter().find(|(k, _)| k.as_slice() == b"admin_list").map(|(_, v)| v).expect("admin list");
                let mut l: Value = serde_json::from_slice(&cur).unwrap();
                l["admins"].as_array_mut().unwrap().push(json!("legacy_admin"));
                run.w.app.wasm_sudo(p, &RawOp::RawSet { key: Binary::from(b"admin_list".to_vec()), value: Binary::from(serde_json::to_vec(&l).unwrap()) }).unwrap();
                run.w.names.insert("legacy_admin".into(), "legacy".into());
            }
        }
        if let Some((_, f)) = &fx {
            if names_of(&run.w) != f["names"] {
                eprintln!("fixtures/cw1.ndjson was recorded with other addresses: regenerate it (tools/mkfixtures.sh)");
                std::process::exit(2);
            }
            let p = run.px();
            load_raw(&mut run.w, &p, &f["raw"]);
            run.w.set_clock(n(&f["now"], "h"), n(&f["now"], "t"));
            cfgv["expect"] = f["obs"].clone();
            // a deployed contract gets new code through `migrate` (cw1-subkeys has one): the state is compared after it
            if flavour == "subkeys" {
                let creator = run.w.addr("creator");
                let code = run.w.app.store_code(proxy_code(&flavour));
                let r = call(&mut run.w, |w| w.app.migrate_contract(creator, p.clone(), &Empty {}, code));
                if !r.ok {
                    run.sc.anomalies.borrow_mut().push(format!("the upgrade of a deployment of the release was refused: {}", r.err));
                }
            }
        }
        let obs = run.observe();
        let anom = run.sc.take_anomalies();
        out.emit(&json!({"act":"reset","sys":"cw1","run":run_no,"cfg":cfgv,"ok":true,"ret":true,"panic":false,"err":"","can":false,
            "now":run.w.now(),"out":[],"anom":anom,"obs":obs}));
        Some(run)
    }

    fn exp_arg(a: &Value) -> Option<cw_utils::Expiration> {
        match a.get("exp") {
            None => None,
            Some(e) => {
                if e.get("k").and_then(|x| x.as_str()) == Some("keep") {
                    None
                } else {
                    Some(exp_to_chain(e))
                }
            }
        }
    }

    /// CanExecute{sender, msg}; a query error counts as "no"
    fn can_execute(&self, by: &str, m: &CosmosMsg) -> bool {
        let q = QueryMsg::<Empty>::CanExecute { sender: self.target(by), msg: m.clone() };
        let p = self.px();
        match guarded(|| self.w.smart::<CanExecuteResponse>(&p, &q)) {
            Ok(Ok(r)) => r.can_execute,
            _ => false,
        }
    }

    /// Execute one schedule step on the real code and emit the event.
    pub fn step(&mut self, st: &Value, out: &mut Out) -> Value {
        let act = s(st, "act");
        let args = st.get("args").cloned().unwrap_or(json!({}));
        let by = opt_s(st, "by").unwrap_or_else(|| "a1".into());
        let p = self.px();
        let mut can = false;
        let mut outv: Vec<Value> = vec![];
        DEPTH.with(|d| d.set(0));
        RET.with(|x| x.set(false));
        let r: CallOut = match act.as_str() {
            "advance" => {
                self.w.advance(n(&args, "dh"), n(&args, "dt"));
                ok_out()
            }
            "migrate" => {
                // the chain admin installs the current code again (cw1-subkeys has a migrate entry point)
                let creator = self.w.addr("creator");
                let code = self.w.app.store_code(proxy_code(&self.flavour));
                call(&mut self.w, |w| w.app.migrate_contract(creator, p.clone(), &Empty {}, code))
            }
            "execute" | "canq" => {
                let msgs: Vec<CosmosMsg> = args["msgs"].as_array().unwrap().iter().map(|m| self.encode(m)).collect();
                if msgs.len() == 1 {
                    // asked immediately before the call, on the same state
                    can = self.can_execute(&by, &msgs[0]);
                }
                let sender = self.w.addr(&by);
                let m = ExecuteMsg::<Empty>::Execute { msgs };
                if act == "canq" {
                    PROBE.with(|x| x.set(true));
                    PROBE_OK.with(|x| x.set(false));
                    log_clear();
                    let res = guarded(|| self.w.app.execute_contract(sender, p.clone(), &m, &[]));
                    PROBE.with(|x| x.set(false));
                    let log = log_take();
                    let would = PROBE_OK.with(|x| x.get());
                    let (panic, err) = match res {
                        Ok(Ok(_)) => (false, "dry run was committed".to_string()),
                        Ok(Err(e)) => (false, short_err(&format!("{}", e.root_cause()))),
                        Err(_) => (true, "panic".to_string()),
                    };
                    if err == "dry run was committed" {
                        self.sc.anomalies.borrow_mut().push(err.clone());
                    }
                    if would {
                        outv = self.out_of(&log);
                    }
                    CallOut { ok: would, panic, err: if would { String::new() } else { err }, log: vec![], data: None }
                } else {
                    let r = call(&mut self.w, |w| w.app.execute_contract(sender, p.clone(), &m, &[]));
                    outv = self.out_of(&r.log);
                    r
                }
            }
            _ => {
                let sp = |k: &str| self.target(&s(&args, k));
                let amount = |a: &Value| Coin { denom: s(a, "denom"), amount: Uint128::new(self.sc.up(n(a, "amt"))) };
                let msg = match act.as_str() {
                    "freeze" => ExecuteMsg::<Empty>::Freeze {},
                    "update_admins" => ExecuteMsg::UpdateAdmins {
                        admins: args["admins"].as_array().unwrap().iter().map(|a| self.target(a.as_str().unwrap())).collect(),
                    },
                    "increase_allowance" => ExecuteMsg::IncreaseAllowance { spender: sp("spender"), amount: amount(&args), expires: Self::exp_arg(&args) },
                    "decrease_allowance" => ExecuteMsg::DecreaseAllowance { spender: sp("spender"), amount: amount(&args), expires: Self::exp_arg(&args) },
                    "set_permissions" => ExecuteMsg::SetPermissions {
                        spender: sp("spender"),
                        permissions: Permissions {
                            delegate: args["d"].as_bool().unwrap_or(false),
                            undelegate: args["u"].as_bool().unwrap_or(false),
                            redelegate: args["r"].as_bool().unwrap_or(false),
                            withdraw: args["w"].as_bool().unwrap_or(false),
                        },
                    },
                    other => panic!("cw1: unknown action {other}"),
                };
                let sender = self.w.addr(&by);
                let r = call(&mut self.w, |w| w.app.execute_contract(sender, p.clone(), &msg, &[]));
                outv = self.out_of(&r.log);
                r
            }
        };
        let obs = self.observe();
        for k in ADDRS {
            let r = rem_of(&obs, k);
            if r != [0, 0] {
                self.memo.insert(k.to_string(), r);
            }
        }
        let anom = self.sc.take_anomalies();
        // ret: the proxy's own entry point returned Ok (differs from ok only when a relayed self-call failed)
        let ret = if act == "advance" { true } else if act == "migrate" { r.ok } else { RET.with(|x| x.get()) };
        if r.ok && !ret {
            self.sc.anomalies.borrow_mut().push("committed although the entry point failed".into());
        }
        out.emit(&json!({"act":act,"by":by,"args":args,"ok":r.ok,"ret":ret,"panic":r.panic,"err":r.err,"can":can,
            "now":self.w.now(),"out":outv,"anom":anom,"obs":obs}));
        obs
    }
}

// ------------------------------------------------------------------------------ random driver
fn rand_exp(rng: &mut Rng, h: u64, t: u64, keep: bool) -> Value {
    match rng.below(if keep { 8 } else { 6 }) {
        0 | 1 => json!({"k":"h","v": h + rng.range(0, 3)}),
        2 | 3 => json!({"k":"t","v": t + rng.range(0, 24)}),
        4 | 5 => json!({"k":"never","v":0}),
        _ => json!({"k":"keep","v":0}),
    }
}

fn around(rng: &mut Rng, x: i64, top: i64) -> u64 {
    let x = x.max(0);
    let v = match rng.below(9) {
        0 => x - 1,
        1 | 2 | 3 => x,
        4 => x + 1,
        5 => 0,
        6 => 1,
        7 => x / 2,
        _ => {
            if x > 0 {
                rng.below(x as u64 + 1) as i64
            } else {
                rng.below(4) as i64
            }
        }
    };
    v.clamp(0, top.max(0)) as u64
}

fn rem_of(obs: &Value, k: &str) -> [i64; 2] {
    [obs["al"][k]["c"]["d1"].as_i64().unwrap_or(0), obs["al"][k]["c"]["d2"].as_i64().unwrap_or(0)]
}

/// what to aim a spend of `k` at: the reported remainder, or (allowance hidden or used up) the last one seen
fn aim(obs: &Value, memo: &std::collections::BTreeMap<String, [i64; 2]>, k: &str) -> [i64; 2] {
    let r = rem_of(obs, k);
    if r == [0, 0] {
        memo.get(k).copied().unwrap_or(r)
    } else {
        r
    }
}

/// a bank send whose coins are chosen around what is left of `left` (updated: cumulative spending)
fn rand_send(rng: &mut Rng, left: &mut [i64; 2], top: i64) -> Value {
    let ncoins = match rng.below(10) {
        0 => 0,
        1..=6 => 1,
        7 | 8 => 2,
        _ => 3,
    };
    let mut coins = vec![];
    for _ in 0..ncoins {
        let di = rng.below(2) as usize;
        let a = if rng.chance(1, 3) { around(rng, left[di] / 2, top) } else { around(rng, left[di], top) };
        left[di] = (left[di] - a as i64).max(0);
        coins.push(json!({"d": DENOMS[di], "a": a}));
    }
    // (the recipient is the bank module's business, not the proxy's: also a string the chain would not accept)
    let to = *rng.pick(&["a1", "a4", "r1", "k1", "r1", "bad"]);
    json!({"k":"send","to":to,"coins":coins,"tag":""})
}

fn rand_msg(rng: &mut Rng, left: &mut [i64; 2], top: i64, send_bias: u64) -> Value {
    if rng.below(100) < send_bias {
        return rand_send(rng, left, top);
    }
    let c1 = |rng: &mut Rng| json!([{"d": *rng.pick(&DENOMS), "a": rng.range(0, 3)}]);
    match rng.below(11) {
        0 => json!({"k":"burn","to":"none","coins":c1(rng),"tag":""}),
        1 => json!({"k":"delegate","to":*rng.pick(&["v1","v2"]),"coins":c1(rng),"tag":""}),
        2 => json!({"k":"undelegate","to":*rng.pick(&["v1","v2"]),"coins":c1(rng),"tag":""}),
        3 => json!({"k":"redelegate","to":"v1","coins":c1(rng),"tag":"v2"}),
        4 => json!({"k":"withdraw","to":*rng.pick(&["v1","v2"]),"coins":[],"tag":""}),
        5 => json!({"k":"set_withdraw","to":*rng.pick(&["a1","a3","r1"]),"coins":[],"tag":""}),
        6 => json!({"k":"fund_pool","to":"none","coins":c1(rng),"tag":""}),
        7 => json!({"k":"wasm_exec","to":"k1","coins": if rng.chance(1,2) { c1(rng) } else { json!([]) },"tag":format!("p{}", rng.below(3))}),
        8 => json!({"k":"ibc_transfer","to":*rng.pick(&["r1","a4"]),"coins":c1(rng),"tag":*rng.pick(&["ch1","ch2"])}),
        9 => json!({"k":"vote","to":"none","coins":[],"tag":format!("{}:{}", rng.range(1, 3), *rng.pick(&["yes","no","abstain","veto"]))}),
        _ => rand_self(rng),
    }
}

/// a re-entrant call: the proxy is asked to call one of its own administrative entry points
fn rand_self(rng: &mut Rng) -> Value {
    match rng.below(7) {
        6 => json!({"k":"self_execute","to":"r1","coins":[{"d": *rng.pick(&DENOMS), "a": rng.range(1, 3)}],"tag":""}),
        0 | 1 | 2 => {
            let nadm = rng.below(3);
            let lst: Vec<&str> = (0..nadm).map(|_| *rng.pick(&ADDRS)).collect();
            json!({"k":"self_update_admins","to":"proxy","coins":[],"tag":lst.join(",")})
        }
        3 => json!({"k":"self_freeze","to":"proxy","coins":[],"tag":""}),
        4 => json!({"k":"self_increase","to":*rng.pick(&ADDRS),"coins":[{"d": *rng.pick(&DENOMS), "a": rng.range(1, 4)}],"tag":*rng.pick(&["never","keep"])}),
        _ => {
            let mut tag = String::new();
            for c in ['d', 'u', 'r', 'w'] {
                if rng.chance(1, 2) {
                    tag.push(c);
                }
            }
            json!({"k":"self_set_perm","to":*rng.pick(&ADDRS),"coins":[],"tag":tag})
        }
    }
}

/// somebody likely to be interesting as a caller: holders of grants first
fn rand_caller(rng: &mut Rng, obs: &Value, memo: &std::collections::BTreeMap<String, [i64; 2]>) -> String {
    let holders: Vec<&str> = ADDRS
        .iter()
        .copied()
        .filter(|k| memo.contains_key(*k) || obs["alist"].as_array().map(|l| l.iter().any(|e| e["s"] == *k)).unwrap_or(false) || obs["plist"].as_array().map(|l| l.iter().any(|e| e["s"] == *k)).unwrap_or(false))
        .collect();
    if !holders.is_empty() && rng.chance(3, 5) {
        holders[rng.below(holders.len() as u64) as usize].to_string()
    } else {
        rng.pick(&ADDRS).to_string()
    }
}

fn rand_admin(rng: &mut Rng, obs: &Value, p_num: u64, p_den: u64) -> String {
    let adm: Vec<String> = obs["admins"].as_array().unwrap().iter().filter_map(|a| a.as_str()).filter(|a| ADDRS.contains(a)).map(|a| a.to_string()).collect();
    if !adm.is_empty() && rng.chance(p_num, p_den) {
        adm[rng.below(adm.len() as u64) as usize].clone()
    } else {
        rng.pick(&ADDRS).to_string()
    }
}

fn rand_probe(rng: &mut Rng, obs: &Value, memo: &std::collections::BTreeMap<String, [i64; 2]>, top: i64) -> Value {
    // now and then the proxy's own address is the caller (what a relayed self-addressed Execute looks like from inside)
    let by = if rng.chance(1, 12) { "proxy".to_string() } else { rand_caller(rng, obs, memo) };
    let mut left = aim(obs, memo, &by);
    let m = rand_msg(rng, &mut left, top, 55);
    json!({"act":"canq","by":by,"args":{"msgs":[m]}})
}

fn rand_cfg(rng: &mut Rng) -> Value {
    let flavour = if rng.chance(1, 5) { "whitelist" } else { "subkeys" };
    let scale = *rng.pick(&[0u64, 0, 0, 64, 100]);
    let mut admins: Vec<&str> = vec![];
    match rng.below(10) {
        0 => {}
        1..=4 => admins.push(*rng.pick(&ADDRS)),
        5..=8 => {
            admins.push("a1");
            admins.push(*rng.pick(&ADDRS));
        }
        _ => {
            admins.push(*rng.pick(&ADDRS));
            admins.push(*rng.pick(&ADDRS));
            admins.push(*rng.pick(&ADDRS));
        }
    }
    if rng.chance(1, 40) {
        admins.push("bad");
    }
    let ver = *rng.pick(&["cur", "cur", "0.13.4", "1.1.2"]);
    json!({"flavour":flavour,"admins":admins,"mutable":!rng.chance(1, 6),"scale":scale,"ver":ver,"oldadmin":ver != "cur" && rng.chance(1, 2)})
}

pub fn random_run(rng: &mut Rng, run_no: u64, len: usize, out: &mut Out) {
    let nfx = fixture_count("cw1") as u64;
    let cfg = if nfx > 0 && rng.chance(1, 6) { json!({"fixture": rng.below(nfx)}) } else { rand_cfg(rng) };
    let Some(mut run) = Run::start(&cfg, run_no, out) else { return };
    if cfg.get("fixture").is_some() && run.flavour == "subkeys" && rng.chance(1, 2) {
        run.step(&json!({"act":"migrate","by":"creator","args":{"x":0}}), out);
    }
    drive(&mut run, rng, len, out);
}

/// records states of the proxies as the current tree writes them (tools/mkfixtures.sh, unchanged tree only)
pub fn make_fixtures(rng: &mut Rng, count: usize, len: usize, path: &str) {
    let mut lines = String::new();
    let mut sink = Out::create("/dev/null");
    let mut k = 0;
    while k < count {
        let mut cfg = rand_cfg(rng);
        // only cw1-subkeys can be upgraded in place (it has a `migrate` entry point; a deployed cw1-whitelist never
        // runs newer code, so its storage layout is nobody's business)
        cfg["flavour"] = json!("subkeys");
        cfg["ver"] = json!("cur");
        cfg["oldadmin"] = json!(false);
        let Some(mut run) = Run::start(&cfg, k as u64, &mut sink) else { continue };
        drive(&mut run, rng, len, &mut sink);
        let p = run.px();
        let fx = json!({"cfg": cfg, "now": run.w.now(), "names": names_of(&run.w), "raw": dump_raw(&run.w, &p), "obs": run.observe()});
        if !run.sc.take_anomalies().is_empty() {
            continue;
        }
        lines.push_str(&serde_json::to_string(&fx).unwrap());
        lines.push('\n');
        k += 1;
    }
    std::fs::write(path, lines).unwrap();
}

fn drive(run: &mut Run, rng: &mut Rng, len: usize, out: &mut Out) {
    let top: i64 = if run.sc.max_amt() > 0 { run.sc.max_amt() } else { 1 << 28 };
    let mut obs = run.observe();
    let _ = run.sc.take_anomalies();
    let mut i = 0;
    while i < len {
        i += 1;
        let st = match rng.below(100) {
            0..=37 => {
                let by = if rng.chance(1, 25) { "proxy".to_string() } else { rand_caller(rng, &obs, &run.memo) };
                let mut left = aim(&obs, &run.memo, &by);
                let nm = match rng.below(20) {
                    0 | 1 => 0,
                    2..=11 => 1,
                    12..=16 => 2,
                    _ => 3,
                };
                let bias = if rng.chance(2, 3) { 75 } else { 30 };
                let mut msgs: Vec<Value> = (0..nm).map(|_| rand_msg(rng, &mut left, top, bias)).collect();
                if rng.chance(1, 6) {
                    // a holder of some permission flags sends the message kinds it may relay first and one it may not
                    // relay after them (every message of the list is authorised on its own)
                    let flags = &obs["perm"][&by];
                    let kinds = [("delegate", "d"), ("undelegate", "u"), ("redelegate", "r"), ("withdraw", "w")];
                    let yes: Vec<&str> = kinds.iter().filter(|(_, f)| flags[*f].as_bool().unwrap_or(false)).map(|(k, _)| *k).collect();
                    let no: Vec<&str> = kinds.iter().filter(|(_, f)| !flags[*f].as_bool().unwrap_or(false)).map(|(k, _)| *k).collect();
                    if !yes.is_empty() && !no.is_empty() {
                        let mk = |k: &str, rng: &mut Rng| -> Value {
                            match k {
                                "redelegate" => json!({"k":"redelegate","to":"v1","coins":[{"d":"d1","a":rng.range(1,3)}],"tag":"v2"}),
                                "withdraw" => json!({"k":"withdraw","to":"v1","coins":[],"tag":""}),
                                _ => json!({"k":k,"to":"v1","coins":[{"d":"d1","a":rng.range(1,3)}],"tag":""}),
                            }
                        };
                        let a = *rng.pick(&yes);
                        let b = *rng.pick(&no);
                        msgs = vec![mk(a, rng), mk(b, rng)];
                    }
                }
                json!({"act":"execute","by":by,"args":{"msgs":msgs}})
            }
            38..=45 => rand_probe(rng, &obs, &run.memo, top),
            46..=60 => {
                let by = rand_admin(rng, &obs, 5, 6);
                let sp = if rng.chance(1, 30) { "bad".to_string() } else { rng.pick(&ADDRS).to_string() };
                let di = rng.below(2) as usize;
                let cur = if sp == "bad" { 0 } else { rem_of(&obs, &sp)[di] };
                let amt = if run.sc.max_amt() > 0 && rng.chance(1, 8) { around(rng, top - cur, top) } else { rng.range(0, 6) };
                json!({"act":"increase_allowance","by":by,"args":{"spender":sp,"denom":DENOMS[di],"amt":amt,"exp":rand_exp(rng, run.w.h, run.w.t, true)}})
            }
            61..=68 => {
                let by = rand_admin(rng, &obs, 5, 6);
                let sp = rand_caller(rng, &obs, &run.memo);
                let di = rng.below(2) as usize;
                let amt = around(rng, rem_of(&obs, &sp)[di], top);
                json!({"act":"decrease_allowance","by":by,"args":{"spender":sp,"denom":DENOMS[di],"amt":amt,"exp":rand_exp(rng, run.w.h, run.w.t, true)}})
            }
            69..=76 => {
                let by = rand_admin(rng, &obs, 4, 5);
                let sp = rng.pick(&ADDRS).to_string();
                json!({"act":"set_permissions","by":by,"args":{"spender":sp,"d":rng.chance(1,2),"u":rng.chance(1,2),"r":rng.chance(1,2),"w":rng.chance(1,2)}})
            }
            77..=82 => {
                let by = rand_admin(rng, &obs, 3, 4);
                let nadm = rng.below(4);
                let mut lst: Vec<String> = (0..nadm).map(|_| rng.pick(&ADDRS).to_string()).collect();
                if rng.chance(1, 2) && !lst.contains(&by) && !lst.is_empty() {
                    lst.push(by.clone());
                }
                if rng.chance(1, 25) {
                    lst.push("bad".into());
                }
                json!({"act":"update_admins","by":by,"args":{"admins":lst}})
            }
            83 | 84 => {
                let by = rand_admin(rng, &obs, 2, 3);
                json!({"act":"freeze","by":by,"args":{"x":0}})
            }
            85..=88 => {
                // an admin (mostly) relays a call to the proxy itself, alone or after another message
                let by = rand_admin(rng, &obs, 5, 6);
                let mut msgs = vec![];
                if rng.chance(1, 3) {
                    let mut left = aim(&obs, &run.memo, &by);
                    msgs.push(rand_msg(rng, &mut left, top, 50));
                }
                msgs.push(rand_self(rng));
                json!({"act":"execute","by":by,"args":{"msgs":msgs}})
            }
            89 if run.flavour == "subkeys" => json!({"act":"migrate","by":"creator","args":{"x":0}}),
            _ => json!({"act":"advance","by":"env","args":{"dh":rng.range(0,2),"dt":rng.range(0,12)}}),
        };
        obs = run.step(&st, out);
        if rng.chance(1, 2) {
            let pr = rand_probe(rng, &obs, &run.memo, top);
            run.step(&pr, out);
        }
    }
}

/// TLC-generated schedule; after every step a few (sender, message) pairs are probed on the state
/// reached (the probes are seeded by the run number and change nothing)
pub fn run_schedule(sched: &Value, run_no: u64, out: &mut Out) {
    let Some(mut run) = Run::start(&sched["cfg"], run_no, out) else { return };
    let mut rng = Rng::new(0xC16 ^ run_no);
    for st in sched["steps"].as_array().unwrap() {
        let obs = run.step(st, out);
        if s(st, "act") != "canq" {
            for _ in 0..2 {
                let pr = rand_probe(&mut rng, &obs, &run.memo, 1 << 20);
                run.step(&pr, out);
            }
        }
    }
}
