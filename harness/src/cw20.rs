//! cw20-base: executes schedules / random runs on the real contract and records the projected
//! abstract state after every call (properties C01 C02 C13 C19).
use crate::common::*;
use cosmwasm_std::{from_json, Addr, Binary, Empty, Uint128};
use cw20::{
    AllAccountsResponse, AllAllowancesResponse, AllSpenderAllowancesResponse, AllowanceResponse,
    BalanceResponse, Cw20Coin, Cw20ExecuteMsg, MinterResponse, TokenInfoResponse,
};
use cw20_base::msg::{InstantiateMsg, QueryMsg};
use cw_multi_test::{Contract, Executor};
use serde_json::{json, Value};

pub const USERS: [&str; 3] = ["a1", "a2", "a3"];
pub const ALL: [&str; 4] = ["a1", "a2", "a3", "k1"];
/// every account that is observed: the callers plus the token contract's own address (a recipient like any other)
pub const ALL5: [&str; 5] = ["a1", "a2", "a3", "k1", "tok"];

pub fn token_code() -> Box<dyn Contract<Empty>> {
    Recorded::new("cw20", crate::contract_code!(cw20_base, has_reply_cw20_base, has_sudo_cw20_base, has_migrate_cw20_base))
}

/// harness-only receiver of Send/SendFrom notifications: accepts every message
pub struct Sink;
impl Contract<Empty> for Sink {
    fn execute(&self, _d: cosmwasm_std::DepsMut, _e: cosmwasm_std::Env, _i: cosmwasm_std::MessageInfo, _m: Vec<u8>) -> AnyResult<cosmwasm_std::Response> {
        Ok(cosmwasm_std::Response::new())
    }
    fn instantiate(&self, _d: cosmwasm_std::DepsMut, _e: cosmwasm_std::Env, _i: cosmwasm_std::MessageInfo, _m: Vec<u8>) -> AnyResult<cosmwasm_std::Response> {
        Ok(cosmwasm_std::Response::new())
    }
    fn query(&self, _d: cosmwasm_std::Deps, _e: cosmwasm_std::Env, _m: Vec<u8>) -> AnyResult<Binary> {
        Ok(Binary::default())
    }
    fn sudo(&self, _d: cosmwasm_std::DepsMut, _e: cosmwasm_std::Env, _m: Vec<u8>) -> AnyResult<cosmwasm_std::Response> {
        Ok(cosmwasm_std::Response::new())
    }
    fn reply(&self, _d: cosmwasm_std::DepsMut, _e: cosmwasm_std::Env, _m: cosmwasm_std::Reply) -> AnyResult<cosmwasm_std::Response> {
        Ok(cosmwasm_std::Response::new())
    }
    fn migrate(&self, _d: cosmwasm_std::DepsMut, _e: cosmwasm_std::Env, _m: Vec<u8>) -> AnyResult<cosmwasm_std::Response> {
        Ok(cosmwasm_std::Response::new())
    }
}

pub struct Run {
    pub w: World,
    pub sc: Scale,
    pub token: Option<Addr>,
    pub code_id: u64,
    pub migrated: bool,
}

impl Run {
    fn tok(&self) -> Addr {
        self.token.clone().unwrap()
    }
    fn amt_of(&self, v: Uint128, what: &str) -> i64 {
        self.sc.down(v.u128(), what)
    }

    fn paged<F>(&self, mut page: F) -> Vec<Value>
    where
        F: FnMut(Option<String>) -> Vec<(String, Value)>,
    {
        let mut out = vec![];
        let mut cursor: Option<String> = None;
        loop {
            let items = page(cursor.clone());
            if items.is_empty() {
                break;
            }
            cursor = Some(items.last().unwrap().0.clone());
            for (_, v) in items {
                out.push(v);
            }
            if out.len() > 300 {
                break;
            }
        }
        out
    }

    /// projected abstract state, through public queries only
    pub fn observe(&self) -> Value {
        let t = self.tok();
        let w = &self.w;
        let info: TokenInfoResponse = w.smart(&t, &QueryMsg::TokenInfo {}).unwrap();
        let minter: Option<MinterResponse> = w.smart(&t, &QueryMsg::Minter {}).unwrap();
        let minter_v = match minter {
            None => json!({"addr":"none","cap":-1}),
            Some(m) => json!({"addr": w.name_of(&m.minter), "cap": m.cap.map(|c| self.amt_of(c, "cap")).unwrap_or(-1)}),
        };
        let accounts = self.paged(|c| {
            // (one account per page: "the accounts" are what a client gets walking the listing)
            let r: AllAccountsResponse = w.smart(&t, &QueryMsg::AllAccounts { start_after: c, limit: Some(1) }).unwrap();
            r.accounts.into_iter().map(|a| (a.clone(), json!(w.name_of(&a)))).collect()
        });
        let mut bal = serde_json::Map::new();
        for a in ALL5 {
            let r: BalanceResponse = w.smart(&t, &QueryMsg::Balance { address: w.addr(a).to_string() }).unwrap();
            bal.insert(a.to_string(), json!(self.amt_of(r.balance, "balance")));
        }
        let mut allow = vec![];
        for o in ALL5 {
            for s in ALL5 {
                let r: AllowanceResponse = w
                    .smart(&t, &QueryMsg::Allowance { owner: w.addr(o).to_string(), spender: w.addr(s).to_string() })
                    .unwrap();
                if !(r.allowance.is_zero() && r.expires == cw_utils::Expiration::Never {}) {
                    allow.push(json!({"o":o,"s":s,"amt":self.amt_of(r.allowance,"allowance"),"exp":exp_to_model(&r.expires)}));
                }
            }
        }
        let mut by_owner = vec![];
        for o in ALL5 {
            let items = self.paged(|c| {
                let r: AllAllowancesResponse = w
                    .smart(&t, &QueryMsg::AllAllowances { owner: w.addr(o).to_string(), start_after: c, limit: Some(30) })
                    .unwrap();
                r.allowances
                    .into_iter()
                    .map(|a| (a.spender.clone(), json!({"o":o,"s":w.name_of(&a.spender),"amt":self.amt_of(a.allowance,"allowance"),"exp":exp_to_model(&a.expires)})))
                    .collect()
            });
            by_owner.extend(items);
        }
        let mut by_spender = vec![];
        for s in ALL5 {
            let items = self.paged(|c| {
                let r: AllSpenderAllowancesResponse = w
                    .smart(&t, &QueryMsg::AllSpenderAllowances { spender: w.addr(s).to_string(), start_after: c, limit: Some(30) })
                    .unwrap();
                r.allowances
                    .into_iter()
                    .map(|a| (a.owner.clone(), json!({"o":w.name_of(&a.owner),"s":s,"amt":self.amt_of(a.allowance,"allowance"),"exp":exp_to_model(&a.expires)})))
                    .collect()
            });
            by_spender.extend(items);
        }
        json!({
            "supply": self.amt_of(info.total_supply, "supply"),
            "accounts": accounts,
            "bal": Value::Object(bal),
            "minter": minter_v,
            "allow": allow,
            "byOwner": by_owner,
            "bySpender": by_spender,
            "migrated": self.migrated,
            "mk": self.observe_marketing(),
        })
    }

    fn zero_obs(&self) -> Value {
        json!({"supply":0,"accounts":[],"bal":{"a1":0,"a2":0,"a3":0,"k1":0,"tok":0},"minter":{"addr":"none","cap":-1},
               "allow":[],"byOwner":[],"bySpender":[],"migrated":true,
               "mk":{"project":"none","description":"none","marketing":"none","logo":"none","mime":"none"}})
    }

    /// Start a run: build a fresh world, instantiate the token from cfg. Emits the reset event.
    pub fn start(cfg0: &Value, run_no: u64, out: &mut Out) -> Option<Run> {
        // a fixture run: the configuration the recorded state was produced with, plus the index of the state
        let fx = cfg0.get("fixture").and_then(|x| x.as_u64()).and_then(|k| fixture("cw20", k as usize).map(|f| (k, f)));
        let merged;
        let cfg: &Value = if let Some((k, f)) = &fx {
            let mut c = f["cfg"].clone();
            c["fixture"] = json!(k);
            merged = c;
            &merged
        } else {
            cfg0
        };
        let sc = Scale::of_cfg(cfg);
        let mut w = World::new();
        for u in USERS {
            w.user(u);
        }
        let creator = w.user("creator");
        let code_id = w.app.store_code(token_code());
        // the receiving contract can be switched to refuse (fault injection: a Send whose receiver fails must roll back)
        let sink_id = w.app.store_code(Box::new(crate::cw3::Flaky));
        let sink = w.app.instantiate_contract(sink_id, creator.clone(), &Empty {}, &[], "sink", None).unwrap();
        w.register("k1", &sink);
        let legacy = cfg.get("legacy").and_then(|x| x.as_bool()).unwrap_or(false);
        let init: Vec<Cw20Coin> = cfg["init"]
            .as_array()
            .unwrap()
            .iter()
            .map(|e| Cw20Coin { address: w.addr(&s(e, "a")).to_string(), amount: Uint128::new(sc.up(n(e, "amt"))) })
            .collect();
        let minter = s(cfg, "minter");
        let cap = cfg.get("cap").and_then(|x| x.as_i64()).unwrap_or(-1);
        let mint = if minter == "none" {
            None
        } else {
            Some(MinterResponse {
                minter: w.addr(&minter).to_string(),
                cap: if cap < 0 { None } else { Some(Uint128::new(sc.up(cap as u64))) },
            })
        };
        let msg = InstantiateMsg {
            name: "Verif Token".into(),
            symbol: "VRF".into(),
            decimals: 6,
            initial_balances: init,
            mint,
            marketing: Self::marketing_of(cfg, &w),
        };
        let admin = creator.to_string();
        let r = call(&mut w, |w| {
            let a = w.app.instantiate_contract(code_id, creator.clone(), &msg, &[], "tok", Some(admin))?;
            w.register("tok", &a);
            Ok(cw_multi_test::AppResponse::default())
        });
        let mut cfgv = cfg.clone();
        cfgv["maxAmt"] = json!(sc.max_amt());
        let mkt = cfg.get("marketing").cloned().unwrap_or(Value::Null);
        cfgv["mkt"] = if mkt.is_null() { json!({"on":false,"addr":"none","logo":"none"}) } else { json!({"on":true,"addr":mkt["addr"],"logo":mkt["logo"]}) };
        cfgv["marketing"] = json!(0);
        let mut run = Run { w, sc, token: None, code_id, migrated: !legacy };
        if !r.ok {
            out.emit(&json!({"act":"reset","sys":"cw20","run":run_no,"cfg":cfgv,"ok":false,"panic":r.panic,"err":r.err,
                "now":run.w.now(),"out":[],"anom":[],"obs":run.zero_obs()}));
            return None;
        }
        run.token = Some(run.w.addr("tok"));
        if legacy {
            // pre-0.14 layout: grants made on the current code, then the spender index is deleted and
            // the stored contract version rewritten, as a 0.13.x token would look
            if let Some(gr) = cfg.get("legacyGrants").and_then(|x| x.as_array()) {
                for g in gr {
                    let owner = run.w.addr(&s(g, "o"));
                    let m = Cw20ExecuteMsg::IncreaseAllowance {
                        spender: run.w.addr(&s(g, "s")).to_string(),
                        amount: Uint128::new(run.sc.up(n(g, "amt"))),
                        expires: Some(exp_to_chain(&g["exp"])),
                    };
                    let t = run.tok();
                    let _ = call(&mut run.w, |w| w.app.execute_contract(owner, t, &m, &[]));
                }
            }
            let t = run.tok();
            let dump = run.w.app.dump_wasm_raw(&t);
            let ns_prefix = {
                // cw-storage-plus namespace encoding: 2-byte big-endian length + namespace
                let ns = b"allowance_spender";
                let mut p = (ns.len() as u16).to_be_bytes().to_vec();
                p.extend_from_slice(ns);
                p
            };
            for (k, _) in dump {
                if k.starts_with(&ns_prefix) {
                    run.w.app.wasm_sudo(t.clone(), &RawOp::RawRemove { key: Binary::from(k) }).unwrap();
                }
            }
            let lv = cfg.get("legacyVersion").and_then(|x| x.as_str()).unwrap_or("0.13.4");
            let ver = json!({"contract":"crates.io:cw20-base","version":lv});
            run.w
                .app
                .wasm_sudo(t.clone(), &RawOp::RawSet { key: Binary::from(b"contract_info".to_vec()), value: Binary::from(serde_json::to_vec(&ver).unwrap()) })
                .unwrap();
        }
        if let Some((_, f)) = &fx {
            if names_of(&run.w) != f["names"] {
                eprintln!("fixtures/cw20.ndjson was recorded with other addresses: regenerate it (tools/mkfixtures.sh)");
                std::process::exit(2);
            }
            let t = run.tok();
            load_raw(&mut run.w, &t, &f["raw"]);
            run.w.set_clock(n(&f["now"], "h"), n(&f["now"], "t"));
            cfgv["expect"] = f["obs"].clone();
            // a deployed contract gets new code through `migrate`: the state is compared after it has run
            let (creator, code) = (run.w.addr("creator"), run.code_id);
            let r = call(&mut run.w, |w| w.app.migrate_contract(creator, t.clone(), &cw20_base::msg::MigrateMsg {}, code));
            if !r.ok {
                run.sc.anomalies.borrow_mut().push(format!("the upgrade of a deployment of the release was refused: {}", r.err));
            }
        }
        // (that the observation equals the recorded one is the formula UpgradeKeepsState, checked by TLC)
        let obs = run.observe();
        let mut anom = run.sc.take_anomalies();

        out.emit(&json!({"act":"reset","sys":"cw20","run":run_no,"cfg":cfgv,"ok":true,"panic":false,"err":"",
            "now":run.w.now(),"out":[],"anom":anom,"obs":obs}));
        Some(run)
    }

    fn logo_of(kind: &str) -> Option<cw20::Logo> {
        let png = |n: usize| -> Binary { let mut v = vec![0x89u8, b'P', b'N', b'G', 0x0d, 0x0a, 0x1a, 0x0a]; v.resize(n, 7); Binary::from(v) };
        match kind {
            "url" => Some(cw20::Logo::Url("https://example.org/logo".into())),
            "png" => Some(cw20::Logo::Embedded(cw20::EmbeddedLogo::Png(png(64)))),
            "bigpng" => Some(cw20::Logo::Embedded(cw20::EmbeddedLogo::Png(png(5 * 1024 + 1)))),
            "maxpng" => Some(cw20::Logo::Embedded(cw20::EmbeddedLogo::Png(png(5 * 1024)))),
            "badpng" => Some(cw20::Logo::Embedded(cw20::EmbeddedLogo::Png(Binary::from(vec![1u8; 32])))),
            "svg" => Some(cw20::Logo::Embedded(cw20::EmbeddedLogo::Svg(Binary::from(b"<?xml version=\"1.0\"?><svg></svg>".to_vec())))),
            "badsvg" => Some(cw20::Logo::Embedded(cw20::EmbeddedLogo::Svg(Binary::from(b"<svg></svg>".to_vec())))),
            _ => None,
        }
    }
    fn marketing_of(cfg: &Value, w: &World) -> Option<cw20_base::msg::InstantiateMarketingInfo> {
        let m = cfg.get("marketing")?;
        if m.is_null() {
            return None;
        }
        let addr = m["addr"].as_str().unwrap_or("none");
        Some(cw20_base::msg::InstantiateMarketingInfo {
            project: Some("proj0".into()),
            description: None,
            marketing: if addr == "none" { None } else { Some(w.addr(addr).to_string()) },
            logo: Self::logo_of(m["logo"].as_str().unwrap_or("none")),
        })
    }
    fn observe_marketing(&self) -> Value {
        let t = self.tok();
        let mi: cw20::MarketingInfoResponse = self.w.smart(&t, &QueryMsg::MarketingInfo {}).unwrap();
        let dl: Result<cw20::DownloadLogoResponse, _> = self.w.smart(&t, &QueryMsg::DownloadLogo {});
        json!({
            "project": mi.project.unwrap_or_else(|| "none".into()),
            "description": mi.description.unwrap_or_else(|| "none".into()),
            "marketing": mi.marketing.map(|a| self.w.name_of(a.as_str())).unwrap_or_else(|| "none".into()),
            "logo": match mi.logo { None => "none", Some(cw20::LogoInfo::Url(_)) => "url", Some(cw20::LogoInfo::Embedded) => "embedded" },
            "mime": dl.map(|d| d.mime_type).unwrap_or_else(|_| "none".into()),
        })
    }

    fn exp_arg(&self, a: &Value) -> Option<cw_utils::Expiration> {
        match a.get("exp") {
            None => None,
            Some(e) => {
                if e.get("k").and_then(|x| x.as_str()) == Some("keep") {
                    None
                } else {
                    Some(exp_to_chain(e))
                }
            }
        }
    }

    /// Execute one schedule step on the real code and emit the event.
    pub fn step(&mut self, st: &Value, out: &mut Out) -> Value {
        let act = s(st, "act");
        let args = st.get("args").cloned().unwrap_or(json!({}));
        let by = opt_s(st, "by").unwrap_or_else(|| "a1".into());
        let t = self.tok();
        let amt = |k: &str| Uint128::new(self.sc.up(n(&args, k)));
        let ad = |k: &str| self.w.addr(&s(&args, k)).to_string();
        let r: CallOut = match act.as_str() {
            "advance" => {
                self.w.advance(n(&args, "dh"), n(&args, "dt"));
                CallOut { ok: true, panic: false, err: String::new(), log: vec![], data: None }
            }
            "sinkfail" => {
                let k1 = self.w.addr("k1");
                self.w.app.wasm_sudo(k1, &json!({"on": args["on"].as_bool().unwrap_or(false)})).unwrap();
                CallOut { ok: true, panic: false, err: String::new(), log: vec![], data: None }
            }
            "migrate" => {
                let creator = self.w.addr("creator");
                let code = self.code_id;
                let r = call(&mut self.w, |w| w.app.migrate_contract(creator, t.clone(), &Empty {}, code));
                if r.ok {
                    self.migrated = true;
                }
                r
            }
            _ => {
                let msg = match act.as_str() {
                    "transfer" => Cw20ExecuteMsg::Transfer { recipient: ad("to"), amount: amt("amt") },
                    "send" => Cw20ExecuteMsg::Send { contract: ad("to"), amount: amt("amt"), msg: bin(&s(&args, "payload")) },
                    "burn" => Cw20ExecuteMsg::Burn { amount: amt("amt") },
                    "mint" => Cw20ExecuteMsg::Mint { recipient: ad("to"), amount: amt("amt") },
                    "increase_allowance" => Cw20ExecuteMsg::IncreaseAllowance { spender: ad("spender"), amount: amt("amt"), expires: self.exp_arg(&args) },
                    "decrease_allowance" => Cw20ExecuteMsg::DecreaseAllowance { spender: ad("spender"), amount: amt("amt"), expires: self.exp_arg(&args) },
                    "transfer_from" => Cw20ExecuteMsg::TransferFrom { owner: ad("owner"), recipient: ad("to"), amount: amt("amt") },
                    "send_from" => Cw20ExecuteMsg::SendFrom { owner: ad("owner"), contract: ad("to"), amount: amt("amt"), msg: bin(&s(&args, "payload")) },
                    "burn_from" => Cw20ExecuteMsg::BurnFrom { owner: ad("owner"), amount: amt("amt") },
                    "update_minter" => {
                        let nm = s(&args, "new");
                        Cw20ExecuteMsg::UpdateMinter { new_minter: if nm == "none" { None } else { Some(self.w.addr(&nm).to_string()) } }
                    }
                    "update_marketing" => {
                        let f = |k: &str| -> Option<String> { match args[k].as_str() { Some("keep") | None => None, Some("clear") => Some("".into()), Some(x) => Some(x.to_string()) } };
                        let m = match args["marketing"].as_str() { Some("keep") | None => None, Some("clear") => Some("".to_string()), Some(x) => Some(self.w.addr(x).to_string()) };
                        Cw20ExecuteMsg::UpdateMarketing { project: f("project"), description: f("description"), marketing: m }
                    }
                    "upload_logo" => Cw20ExecuteMsg::UploadLogo(Self::logo_of(&s(&args, "kind")).expect("logo kind")),
                    other => panic!("cw20: unknown action {other}"),
                };
                let sender = self.w.addr(&by);
                call(&mut self.w, |w| w.app.execute_contract(sender, t.clone(), &msg, &[]))
            }
        };
        // messages emitted by the token in this call
        let mut outv = vec![];
        for l in &r.log {
            if l.tag != "cw20" || l.entry != "execute" {
                continue;
            }
            if let Some(ms) = l.messages.as_array() {
                for m in ms {
                    outv.push(self.decode_msg(m));
                }
            }
        }
        let obs = self.observe();
        let anom = self.sc.take_anomalies();
        out.emit(&json!({"act":act,"by":by,"args":args,"ok":r.ok,"panic":r.panic,"err":r.err,
            "now":self.w.now(),"out":outv,"anom":anom,"obs":obs}));
        obs
    }

    fn decode_msg(&self, m: &Value) -> Value {
        // SubMsg{ id, msg: {wasm:{execute:{contract_addr,msg,funds}}}, gas_limit, reply_on }
        let ex = &m["msg"]["wasm"]["execute"];
        if ex.is_object() {
            let to = self.w.name_of(ex["contract_addr"].as_str().unwrap_or(""));
            let body: Result<Value, _> = from_json::<Value>(&Binary::from_base64(ex["msg"].as_str().unwrap_or("")).unwrap_or_default());
            if let Ok(b) = body {
                if let Some(rc) = b.get("receive") {
                    let amount: u128 = rc["amount"].as_str().unwrap_or("0").parse().unwrap_or(0);
                    let payload: String = Binary::from_base64(rc["msg"].as_str().unwrap_or(""))
                        .ok()
                        .and_then(|b| from_json::<String>(&b).ok())
                        .unwrap_or_else(|| "?".into());
                    let funds_empty = ex["funds"].as_array().map(|a| a.is_empty()).unwrap_or(true);
                    let plain = m["reply_on"].as_str() == Some("never") && m["gas_limit"].is_null();
                    return json!({"k": if funds_empty && plain {"receive"} else {"receive_odd"}, "to": to,
                        "sender": self.w.name_of(rc["sender"].as_str().unwrap_or("")),
                        "amt": self.sc.down(amount, "receive amount"), "payload": payload});
                }
            }
            return json!({"k":"other","to":to,"sender":"?","amt":-1,"payload":"?"});
        }
        json!({"k":"other","to":"?","sender":"?","amt":-1,"payload":"?"})
    }
}

// ------------------------------------------------------------------------------ random driver
fn rand_cfg(rng: &mut Rng) -> Value {
    let scale = *rng.pick(&[0u64, 0, 33, 64, 100, 100]);
    // one run in eight: amounts in units of (2^128-1)/255, so that u128::MAX itself is an amount (255 units)
    let scale_div = if rng.chance(1, 8) { 255u64 } else { 0 };
    let sc = Scale::of_cfg(&json!({"scale": scale, "scaleDiv": scale_div}));
    let big = sc.max_amt() > 0 && rng.chance(1, 2);
    let top: u64 = if big { sc.max_amt() as u64 } else { 60 };
    let mut init = vec![];
    let mut total = 0u64;
    for a in ALL {
        if rng.chance(2, 3) {
            let amt = if big && rng.chance(1, 3) { rng.range(0, top / 3) } else { rng.range(0, 20) };
            total += amt;
            init.push(json!({"a":a,"amt":amt}));
        }
    }
    if rng.chance(1, 12) && !init.is_empty() {
        // a repeated address: must be rejected (or at least stay consistent)
        let d = init[rng.below(init.len() as u64) as usize].clone();
        init.push(d);
    }
    let minter = if rng.chance(1, 5) { "none".to_string() } else { rng.pick(&USERS).to_string() };
    let cap: i64 = if minter == "none" || rng.chance(1, 3) {
        -1
    } else {
        match rng.below(6) {
            0 => total.saturating_sub(1) as i64, // below supply: instantiate must fail (if total>0)
            1 => total as i64,
            2 => total as i64 + 1,
            3 if big => top as i64,
            _ => (total + rng.range(1, 30)) as i64,
        }
    };
    let legacy = rng.chance(1, 6);
    let legacy_version = *rng.pick(&["0.13.4", "0.13.0", "0.10.0", "0.9.1", "0.2.0", "0.8.0-rc1"]);
    let mut grants = vec![];
    if legacy {
        for _ in 0..rng.range(0, 5) {
            let o = *rng.pick(&ALL);
            let sp = *rng.pick(&ALL);
            grants.push(json!({"o":o,"s":sp,"amt":rng.range(0,10),"exp":rand_exp(rng, 0, 0, true)}));
        }
    }
    let marketing = if rng.chance(1, 2) { json!({"addr": rng.pick(&["a1", "a2", "none"]), "logo": rng.pick(&["none", "url", "png", "svg"])}) } else { Value::Null };
    json!({"scale":scale,"scaleDiv":scale_div,"init":init,"minter":minter,"cap":cap,"legacy":legacy,"legacyVersion":legacy_version,"legacyGrants":grants,"marketing":marketing})
}

fn rand_exp(rng: &mut Rng, h: u64, t: u64, concrete: bool) -> Value {
    match rng.below(if concrete { 3 } else { 4 }) {
        0 => json!({"k":"h","v": h + rng.range(0, 4)}),
        1 => json!({"k":"t","v": t + rng.range(0, 30)}),
        2 => json!({"k":"never","v":0}),
        _ => json!({"k":"keep","v":0}),
    }
}

fn around(rng: &mut Rng, x: i64, top: i64) -> u64 {
    // a value near x: x-1, x, x+1, 0, 1, or uniform below x
    let x = x.max(0);
    let v = match rng.below(8) {
        0 => x - 1,
        1 | 2 => x,
        3 => x + 1,
        4 => 0,
        5 => 1,
        6 => x / 2,
        _ => {
            if x > 0 {
                rng.below(x as u64 + 1) as i64
            } else {
                rng.below(5) as i64
            }
        }
    };
    v.clamp(0, top.max(0)) as u64
}

pub fn random_run(rng: &mut Rng, run_no: u64, len: usize, out: &mut Out) {
    let nfx = fixture_count("cw20") as u64;
    let cfg = if nfx > 0 && rng.chance(1, 6) { json!({"fixture": rng.below(nfx)}) } else { rand_cfg(rng) };
    let Some(mut run) = Run::start(&cfg, run_no, out) else { return };
    if cfg.get("fixture").is_some() && rng.chance(1, 2) {
        // the upgrade itself: the current code is installed over the recorded state
        run.step(&json!({"act":"migrate","by":"creator","args":{}}), out);
    }
    drive(&mut run, rng, len, out);
}

/// records states of the token as the current tree writes them (run on the unchanged tree by tools/mkfixtures.sh)
pub fn make_fixtures(rng: &mut Rng, count: usize, len: usize, path: &str) {
    let mut lines = String::new();
    let mut sink = Out::create("/dev/null");
    let mut k = 0;
    while k < count {
        let mut cfg = rand_cfg(rng);
        cfg["legacy"] = json!(false);
        let Some(mut run) = Run::start(&cfg, k as u64, &mut sink) else { continue };
        drive(&mut run, rng, len, &mut sink);
        let t = run.tok();
        let fx = json!({"cfg": cfg, "now": run.w.now(), "names": names_of(&run.w), "raw": dump_raw(&run.w, &t), "obs": run.observe()});
        if !run.sc.take_anomalies().is_empty() {
            continue;
        }
        lines.push_str(&serde_json::to_string(&fx).unwrap());
        lines.push('\n');
        k += 1;
    }
    std::fs::write(path, lines).unwrap();
}

fn drive(run: &mut Run, rng: &mut Rng, len: usize, out: &mut Out) {
    let top: i64 = if run.sc.max_amt() > 0 { run.sc.max_amt() as i64 } else { 1 << 28 };
    if !run.migrated {
        if rng.chance(1, 2) {
            // the upgrade comes some blocks later: grants of the old deployment may have expired by then
            run.step(&json!({"act":"advance","by":"env","args":{"dh":rng.range(0,6),"dt":rng.range(0,40)}}), out);
        }
        run.step(&json!({"act":"migrate","by":"creator","args":{}}), out);
    }
    let mut obs = run.observe();
    let _ = run.sc.take_anomalies();
    for _ in 0..len {
        let by = rng.pick(&ALL).to_string();
        let balof = |o: &Value, a: &str| o["bal"][a].as_i64().unwrap_or(0);
        let allow_of = |o: &Value, ow: &str, sp: &str| -> i64 {
            o["allow"].as_array().unwrap().iter().find(|e| e["o"] == ow && e["s"] == sp).map(|e| e["amt"].as_i64().unwrap_or(0)).unwrap_or(0)
        };
        let supply = obs["supply"].as_i64().unwrap_or(0);
        let cap = obs["minter"]["cap"].as_i64().unwrap_or(-1);
        let maxa = run.sc.max_amt();
        let st = match rng.below(100) {
            0..=13 => json!({"act":"transfer","by":by,"args":{"to":rng.pick(&ALL5),"amt":around(rng, balof(&obs,&by), top)}}),
            14..=20 => json!({"act":"send","by":by,"args":{"to":"k1","amt":around(rng, balof(&obs,&by), top),"payload":format!("p{}", rng.below(4))}}),
            21..=26 => json!({"act":"burn","by":by,"args":{"amt":around(rng, balof(&obs,&by), top)}}),
            27..=38 => {
                let who = if rng.chance(3, 4) && obs["minter"]["addr"] != "none" { obs["minter"]["addr"].as_str().unwrap().to_string() } else { by.clone() };
                let target = if cap >= 0 && rng.chance(2, 3) { cap - supply } else if maxa > 0 && rng.chance(1, 2) { maxa - supply } else { rng.range(0, 12) as i64 };
                json!({"act":"mint","by":who,"args":{"to":rng.pick(&ALL5),"amt":around(rng, target, top)}})
            }
            39..=52 => {
                let sp = rng.pick(&ALL).to_string();
                let a = if maxa > 0 && rng.chance(1, 6) { around(rng, maxa - allow_of(&obs, &by, &sp), top) } else { rng.range(0, 15) };
                json!({"act":"increase_allowance","by":by,"args":{"spender":sp,"amt":a,"exp":rand_exp(rng, run.w.h, run.w.t, false)}})
            }
            53..=60 => {
                let sp = rng.pick(&ALL).to_string();
                let a = around(rng, allow_of(&obs, &by, &sp), top);
                json!({"act":"decrease_allowance","by":by,"args":{"spender":sp,"amt":a,"exp":rand_exp(rng, run.w.h, run.w.t, false)}})
            }
            61..=84 => {
                // a draw: prefer pairs that have an allowance
                let pairs: Vec<(String, String)> = obs["allow"].as_array().unwrap().iter().map(|e| (e["o"].as_str().unwrap().to_string(), e["s"].as_str().unwrap().to_string())).collect();
                let (o, sp) = if !pairs.is_empty() && rng.chance(5, 6) { pairs[rng.below(pairs.len() as u64) as usize].clone() } else { (rng.pick(&ALL).to_string(), by.clone()) };
                let lim = allow_of(&obs, &o, &sp).min(balof(&obs, &o).max(if rng.chance(1, 4) { i64::MAX } else { 0 }));
                let tgt = if rng.chance(1, 2) { lim } else { allow_of(&obs, &o, &sp) };
                let a = around(rng, tgt, top);
                match rng.below(3) {
                    0 => json!({"act":"transfer_from","by":sp,"args":{"owner":o,"to":rng.pick(&ALL5),"amt":a}}),
                    1 => json!({"act":"send_from","by":sp,"args":{"owner":o,"to":"k1","amt":a,"payload":format!("q{}", rng.below(4))}}),
                    _ => json!({"act":"burn_from","by":sp,"args":{"owner":o,"amt":a}}),
                }
            }
            85..=89 => {
                let who = if rng.chance(2, 3) && obs["minter"]["addr"] != "none" { obs["minter"]["addr"].as_str().unwrap().to_string() } else { by.clone() };
                let new = if rng.chance(1, 6) { "none".to_string() } else { rng.pick(&USERS).to_string() };
                json!({"act":"update_minter","by":who,"args":{"new":new}})
            }
            95 => json!({"act":"sinkfail","by":"env","args":{"on":rng.chance(1,2)}}),
            90..=94 => {
                let who = if rng.chance(3, 4) && obs["mk"]["marketing"] != "none" { obs["mk"]["marketing"].as_str().unwrap().to_string() } else { by.clone() };
                if rng.chance(1, 2) {
                    json!({"act":"upload_logo","by":who,"args":{"kind":rng.pick(&["url","png","svg","bigpng","maxpng","badpng","badsvg"])}})
                } else {
                    json!({"act":"update_marketing","by":who,"args":{"project":rng.pick(&["keep","clear","projA","projB"]),"description":rng.pick(&["keep","clear","descA"]),"marketing":rng.pick(&["keep","keep","clear","a1","a2","a3"])}})
                }
            }
            _ => json!({"act":"advance","by":"env","args":{"dh":rng.range(0,2),"dt":rng.range(0,12)}}),
        };
        obs = run.step(&st, out);
    }
}

pub fn run_schedule(sched: &Value, run_no: u64, out: &mut Out) {
    let Some(mut run) = Run::start(&sched["cfg"], run_no, out) else { return };
    if !run.migrated {
        run.step(&json!({"act":"migrate","by":"creator","args":{}}), out);
    }
    for st in sched["steps"].as_array().unwrap() {
        run.step(st, out);
    }
}
