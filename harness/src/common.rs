//! Shared machinery of the conformance harness: deterministic PRNG, recorder wrapper around the
//! real contract entry points, world helpers (clock, names, panics), ndjson output.
use cosmwasm_std::{
    from_json, to_json_binary, Addr, Binary, BlockInfo, Deps, DepsMut, Empty, Env, MessageInfo,
    Reply, Response, Timestamp,
};
use cw_multi_test::{App, AppBuilder, Contract, IbcAcceptingModule};
use serde::{Deserialize, Serialize};
use serde_json::{json, Map, Value};
use std::cell::RefCell;
use std::collections::BTreeMap;
use std::io::Write;

pub type AnyResult<T> = anyhow::Result<T>;

// --------------------------------------------------------------------------- contract wrappers
/// `contract_code!(krate, reply_flag, sudo_flag, migrate_flag)`: the cw-multi-test wrapper of a contract with every
/// entry point its `contract.rs` defines (build.rs sets the cfg flags from /repo's working tree)
#[macro_export]
macro_rules! contract_code {
    ($krate:ident, $r:ident, $s:ident, $m:ident) => {{
        let c = cw_multi_test::ContractWrapper::new($krate::contract::execute, $krate::contract::instantiate, $krate::contract::query);
        #[cfg($r)]
        let c = c.with_reply($krate::contract::reply);
        #[cfg($s)]
        let c = c.with_sudo($krate::contract::sudo);
        #[cfg($m)]
        let c = c.with_migrate($krate::contract::migrate);
        let b: Box<dyn cw_multi_test::Contract<cosmwasm_std::Empty>> = Box::new(c);
        b
    }};
}

// ---------------------------------------------------------------------------------- fixtures
// Storage written by the code as released (the tree /verif was built against): `fixtures/<sys>.ndjson`, one
// line per state {cfg, now, names, raw:[[key,value]..] (base64), obs}.  A fixture run instantiates the contract
// under test, swaps its storage for the recorded one and carries on from there: whatever the current code reads
// out of it must be what the release wrote into it (upgrade of a deployed contract, DESIGN 15.3).
thread_local! {
    pub static FIXTURES: RefCell<BTreeMap<String, Vec<Value>>> = RefCell::new(BTreeMap::new());
}
pub fn load_fixtures(dir: &str) {
    for sys in ["cw20", "cw1", "ics20"] {
        let p = format!("{dir}/{sys}.ndjson");
        if let Ok(txt) = std::fs::read_to_string(&p) {
            let v: Vec<Value> = txt.lines().filter(|l| !l.trim().is_empty()).map(|l| serde_json::from_str(l).unwrap_or_else(|e| panic!("bad fixture line in {p}: {e}"))).collect();
            FIXTURES.with(|f| f.borrow_mut().insert(sys.to_string(), v));
        }
    }
}
pub fn fixture_count(sys: &str) -> usize {
    FIXTURES.with(|f| f.borrow().get(sys).map(|v| v.len()).unwrap_or(0))
}
pub fn fixture(sys: &str, k: usize) -> Option<Value> {
    FIXTURES.with(|f| f.borrow().get(sys).and_then(|v| v.get(k).cloned()))
}
pub fn dump_raw(w: &World, c: &Addr) -> Value {
    Value::Array(w.app.dump_wasm_raw(c).into_iter().map(|(k, v)| json!([Binary::from(k).to_base64(), Binary::from(v).to_base64()])).collect())
}
/// replaces the whole storage of `c` (a `Recorded` contract: raw writes go through its sudo)
pub fn load_raw(w: &mut World, c: &Addr, raw: &Value) {
    for (k, _) in w.app.dump_wasm_raw(c) {
        w.app.wasm_sudo(c.clone(), &RawOp::RawRemove { key: Binary::from(k) }).unwrap();
    }
    for kv in raw.as_array().unwrap() {
        let k = Binary::from_base64(kv[0].as_str().unwrap()).unwrap();
        let v = Binary::from_base64(kv[1].as_str().unwrap()).unwrap();
        w.app.wasm_sudo(c.clone(), &RawOp::RawSet { key: k, value: v }).unwrap();
    }
}
/// name -> address of every registered party: a fixture only fits a world that names the same addresses
pub fn names_of(w: &World) -> Value {
    let mut m = Map::new();
    for (a, n) in &w.names {
        m.insert(n.clone(), json!(a));
    }
    Value::Object(m)
}

// ------------------------------------------------------------------------------------------ rng
/// splitmix64 — deterministic, seedable, no external crate.
#[derive(Clone)]
pub struct Rng(pub u64);
impl Rng {
    pub fn new(seed: u64) -> Self {
        Rng(seed.wrapping_mul(0x9E3779B97F4A7C15).wrapping_add(0x1234_5678_9abc_def1))
    }
    pub fn next(&mut self) -> u64 {
        self.0 = self.0.wrapping_add(0x9E3779B97F4A7C15);
        let mut z = self.0;
        z = (z ^ (z >> 30)).wrapping_mul(0xBF58476D1CE4E5B9);
        z = (z ^ (z >> 27)).wrapping_mul(0x94D049BB133111EB);
        z ^ (z >> 31)
    }
    /// uniform in 0..n (n > 0)
    pub fn below(&mut self, n: u64) -> u64 {
        self.next() % n
    }
    pub fn range(&mut self, lo: u64, hi: u64) -> u64 {
        lo + self.below(hi - lo + 1)
    }
    pub fn chance(&mut self, num: u64, den: u64) -> bool {
        self.below(den) < num
    }
    pub fn pick<'a, T>(&mut self, xs: &'a [T]) -> &'a T {
        &xs[self.below(xs.len() as u64) as usize]
    }
}

// ------------------------------------------------------------------------------- response log
/// One response returned by a real entry point, as seen by the recorder wrapper.
#[derive(Clone, Debug)]
pub struct Logged {
    pub tag: String,
    pub entry: &'static str,
    pub messages: Value, // serde form of Vec<SubMsg>
    pub data: Option<Binary>,
    pub attrs: Vec<(String, String)>,
}

thread_local! {
    pub static LOG: RefCell<Vec<Logged>> = RefCell::new(Vec::new());
}

pub fn log_clear() {
    LOG.with(|l| l.borrow_mut().clear());
}
pub fn log_take() -> Vec<Logged> {
    LOG.with(|l| std::mem::take(&mut *l.borrow_mut()))
}

fn log_resp(tag: &str, entry: &'static str, r: &Response) {
    let messages = serde_json::to_value(&r.messages).unwrap_or(Value::Null);
    let attrs = r.attributes.iter().map(|a| (a.key.clone(), a.value.clone())).collect();
    LOG.with(|l| {
        l.borrow_mut().push(Logged {
            tag: tag.to_string(),
            entry,
            messages,
            data: r.data.clone(),
            attrs,
        })
    });
}

/// Raw storage operations (harness-only, through `sudo`) used to lay down legacy layouts.
#[derive(Serialize, Deserialize, Clone, Debug)]
#[serde(rename_all = "snake_case")]
pub enum RawOp {
    RawSet { key: Binary, value: Binary },
    RawRemove { key: Binary },
}

/// Recorder wrapper: delegates to the crate's real entry points and copies every returned
/// `Response` into the thread-local log. `strip` drops the emitted messages after logging them
/// (cw1 proxies: nothing needs to be funded/staked for the relayed messages to be observed).
pub struct Recorded {
    pub tag: String,
    pub inner: Box<dyn Contract<Empty>>,
    pub strip: bool,
}

impl Recorded {
    pub fn new(tag: &str, inner: Box<dyn Contract<Empty>>) -> Box<dyn Contract<Empty>> {
        Box::new(Recorded { tag: tag.to_string(), inner, strip: false })
    }
    pub fn stripping(tag: &str, inner: Box<dyn Contract<Empty>>) -> Box<dyn Contract<Empty>> {
        Box::new(Recorded { tag: tag.to_string(), inner, strip: true })
    }
    fn post(&self, entry: &'static str, r: Response) -> Response {
        log_resp(&self.tag, entry, &r);
        if self.strip {
            let mut out = Response::new().add_attributes(r.attributes).add_events(r.events);
            out.data = r.data;
            out
        } else {
            r
        }
    }
}

thread_local! {
    /// contract executions in the current transaction (a chain bounds the call depth; cw-multi-test does not, and a
    /// contract that keeps dispatching calls to itself would overflow the harness's stack)
    static EXECS: std::cell::Cell<u32> = std::cell::Cell::new(0);
    /// anomalies noticed outside a subsystem's own bookkeeping; `Out::emit` adds them to the next event
    pub static GLOBAL_ANOM: RefCell<Vec<String>> = RefCell::new(Vec::new());
}
const MAX_EXECS: u32 = 200;

impl Contract<Empty> for Recorded {
    fn execute(&self, deps: DepsMut, env: Env, info: MessageInfo, msg: Vec<u8>) -> AnyResult<Response> {
        // (counted only inside `call`, which knows where a transaction starts)
        let k = if IN_CALL.with(|c| c.get()) { EXECS.with(|c| { c.set(c.get() + 1); c.get() }) } else { 0 };
        if k > MAX_EXECS {
            if k == MAX_EXECS + 1 {
                GLOBAL_ANOM.with(|a| a.borrow_mut().push(format!("more than {MAX_EXECS} contract executions in one transaction (unbounded re-entrancy?)")));
            }
            anyhow::bail!("harness: call limit of one transaction exceeded");
        }
        let r = self.inner.execute(deps, env, info, msg)?;
        Ok(self.post("execute", r))
    }
    fn instantiate(&self, deps: DepsMut, env: Env, info: MessageInfo, msg: Vec<u8>) -> AnyResult<Response> {
        let r = self.inner.instantiate(deps, env, info, msg)?;
        Ok(self.post("instantiate", r))
    }
    fn query(&self, deps: Deps, env: Env, msg: Vec<u8>) -> AnyResult<Binary> {
        self.inner.query(deps, env, msg)
    }
    fn sudo(&self, deps: DepsMut, env: Env, msg: Vec<u8>) -> AnyResult<Response> {
        if let Ok(op) = from_json::<RawOp>(&msg) {
            match op {
                RawOp::RawSet { key, value } => deps.storage.set(key.as_slice(), value.as_slice()),
                RawOp::RawRemove { key } => deps.storage.remove(key.as_slice()),
            }
            return Ok(Response::new());
        }
        let r = self.inner.sudo(deps, env, msg)?;
        Ok(self.post("sudo", r))
    }
    fn reply(&self, deps: DepsMut, env: Env, msg: Reply) -> AnyResult<Response> {
        let r = self.inner.reply(deps, env, msg)?;
        Ok(self.post("reply", r))
    }
    fn migrate(&self, deps: DepsMut, env: Env, msg: Vec<u8>) -> AnyResult<Response> {
        let r = self.inner.migrate(deps, env, msg)?;
        Ok(self.post("migrate", r))
    }
}

// --------------------------------------------------------------------------------------- world
pub const H0: u64 = 1000; // origin of the model clock on the chain
pub const T0: u64 = 1_600_000_000;
/// the model clock counts ticks of 0.1 s, so that sub-second block times (and any truncation of them) are exercised
pub const TICKS: u64 = 10;
pub const TICK_NANOS: u64 = 100_000_000;
pub fn chain_time(t: u64) -> Timestamp {
    Timestamp::from_nanos((T0 * TICKS + t) * TICK_NANOS)
}
/// a duration given in ticks as whole seconds (contract configurations take seconds)
pub fn ticks_to_secs(v: u64) -> u64 {
    assert!(v % TICKS == 0, "time-based durations must be whole seconds ({v} ticks)");
    v / TICKS
}

pub type IbcApp = App<
    cw_multi_test::BankKeeper,
    cosmwasm_std::testing::MockApi,
    cosmwasm_std::testing::MockStorage,
    cw_multi_test::FailingModule<Empty, Empty, Empty>,
    cw_multi_test::WasmKeeper<Empty, Empty>,
    cw_multi_test::StakeKeeper,
    cw_multi_test::DistributionKeeper,
    IbcAcceptingModule,
    cw_multi_test::GovFailingModule,
    cw_multi_test::StargateFailingModule,
>;

pub struct World {
    pub app: IbcApp,
    /// bech32 address -> model name
    pub names: BTreeMap<String, String>,
    /// model name -> address
    pub addrs: BTreeMap<String, Addr>,
    pub h: u64,
    pub t: u64,
}

impl World {
    pub fn new() -> Self {
        let app = AppBuilder::new()
            .with_ibc(IbcAcceptingModule::new())
            .build(|_, _, _| {});
        let mut w = World { app, names: BTreeMap::new(), addrs: BTreeMap::new(), h: 0, t: 0 };
        w.set_clock(0, 0);
        w
    }
    pub fn set_clock(&mut self, h: u64, t: u64) {
        self.h = h;
        self.t = t;
        let chain_id = self.app.block_info().chain_id;
        self.app.set_block(BlockInfo {
            height: H0 + h,
            time: chain_time(t),
            chain_id,
        });
    }
    pub fn advance(&mut self, dh: u64, dt: u64) {
        self.set_clock(self.h + dh, self.t + dt);
    }
    pub fn now(&self) -> Value {
        json!({"h": self.h, "t": self.t})
    }
    /// a user address with a model name
    pub fn user(&mut self, name: &str) -> Addr {
        if let Some(a) = self.addrs.get(name) {
            return a.clone();
        }
        let a = self.app.api().addr_make(name);
        self.register(name, &a);
        a
    }
    pub fn register(&mut self, name: &str, a: &Addr) {
        self.names.insert(a.to_string(), name.to_string());
        self.addrs.insert(name.to_string(), a.clone());
    }
    pub fn addr(&self, name: &str) -> Addr {
        self.addrs.get(name).unwrap_or_else(|| panic!("unknown model name {name}")).clone()
    }
    pub fn name_of(&self, addr: &str) -> String {
        self.names.get(addr).cloned().unwrap_or_else(|| format!("?{addr}"))
    }
    pub fn smart<T: serde::de::DeserializeOwned>(&self, c: &Addr, q: &impl Serialize) -> AnyResult<T> {
        Ok(self.app.wrap().query_wasm_smart(c, q)?)
    }
}

/// Result of one call on the real code.
pub struct CallOut {
    pub ok: bool,
    pub panic: bool,
    pub err: String,
    pub log: Vec<Logged>,
    pub data: Option<Binary>,
}

/// Run one call against the App, catching panics (a panic aborts the wasm call on chain, so it is
/// a failed transaction, not a harness error). The response log is returned only for successful
/// calls: a failed transaction dispatched nothing.
pub fn call<F>(w: &mut World, f: F) -> CallOut
where
    F: FnOnce(&mut World) -> AnyResult<cw_multi_test::AppResponse>,
{
    log_clear();
    EXECS.with(|c| c.set(0));
    let r = guarded(|| f(w));
    let log = log_take();
    match r {
        Ok(Ok(resp)) => CallOut { ok: true, panic: false, err: String::new(), log, data: resp.data },
        Ok(Err(e)) => CallOut { ok: false, panic: false, err: short_err(&format!("{}", e.root_cause())), log: vec![], data: None },
        Err(p) => {
            let msg = if let Some(s) = p.downcast_ref::<String>() {
                s.clone()
            } else if let Some(s) = p.downcast_ref::<&str>() {
                s.to_string()
            } else {
                "panic".to_string()
            };
            CallOut { ok: false, panic: true, err: short_err(&msg), log: vec![], data: None }
        }
    }
}

pub fn short_err(e: &str) -> String {
    let one: String = e.chars().filter(|c| *c != '\n' && *c != '"' && *c != '\\').take(100).collect();
    one
}

thread_local! {
    pub static IN_CALL: std::cell::Cell<bool> = std::cell::Cell::new(false);
}
/// panics inside the code under test are data (recorded in the trace); panics of the harness
/// itself are printed
thread_local! {
    pub static PANIC_MSG: RefCell<String> = RefCell::new(String::new());
    static IN_RUN: std::cell::Cell<bool> = std::cell::Cell::new(false);
}
pub fn silence_panics() {
    std::panic::set_hook(Box::new(|info| {
        if !IN_CALL.with(|c| c.get()) {
            PANIC_MSG.with(|m| *m.borrow_mut() = format!("{info}"));
            if !IN_RUN.with(|c| c.get()) {
                eprintln!("harness panic: {info}");
            }
        }
    }));
}
/// Runs one run of a driver.  A panic outside a guarded call means that observing the contract failed (a query
/// that always answers on a correct contract returned an error, an address nobody registered showed up, ...):
/// that is data about the code under test, recorded as an anomaly of the run, not a failure of the tool.
pub fn run_guarded(out: &mut Out, f: impl FnOnce(&mut Out)) {
    out.in_run = false;
    IN_RUN.with(|c| c.set(true));
    let r = std::panic::catch_unwind(std::panic::AssertUnwindSafe(|| f(&mut *out)));
    IN_RUN.with(|c| c.set(false));
    if r.is_err() {
        let msg = PANIC_MSG.with(|m| m.borrow().clone());
        IN_CALL.with(|c| c.set(false));
        match (out.in_run, out.last.clone()) {
            (true, Some(mut ev)) => {
                if ev["act"] == "reset" {
                    ev["act"] = json!("advance");
                    ev["by"] = json!("env");
                    ev["args"] = json!({"dh": 0, "dt": 0});
                    ev.as_object_mut().unwrap().remove("cfg");
                }
                ev["ok"] = json!(false);
                ev["err"] = json!("observation failed");
                ev["out"] = json!([]);
                ev["anom"] = json!([format!("observing the contract failed: {}", msg.replace('\n', " "))]);
                out.emit(&ev);
            }
            _ => {
                eprintln!("harness panic before the run started: {msg}");
                std::process::exit(101);
            }
        }
    }
}
pub fn guarded<T>(f: impl FnOnce() -> T) -> std::thread::Result<T> {
    IN_CALL.with(|c| c.set(true));
    let r = std::panic::catch_unwind(std::panic::AssertUnwindSafe(f));
    IN_CALL.with(|c| c.set(false));
    r
}

// -------------------------------------------------------------------------------------- scale
/// Amount scale of a run (DESIGN C-4): the trace carries amount / U; anything that is not a
/// multiple of U or does not fit 2^30 is reported as an anomaly of the event (a named invariant
/// of every trace specification), never silently rounded.
#[derive(Clone)]
pub struct Scale {
    pub u: u128,
    pub anomalies: RefCell<Vec<String>>,
}
impl Scale {
    pub fn new(u: u128) -> Self {
        Scale { u, anomalies: RefCell::new(vec![]) }
    }
    /// the scale a run's configuration asks for: 2^scale, or (2^128-1)/scaleDiv - with a divisor of 2^128-1 (255 =
    /// 2^8-1) the largest model amount is exactly u128::MAX, so "the maximal value" is a reachable amount
    pub fn of_cfg(cfg: &Value) -> Self {
        match cfg.get("scaleDiv").and_then(|x| x.as_u64()) {
            Some(d) if d > 0 => Scale::new(u128::MAX / d as u128),
            _ => Scale::new(1u128 << cfg.get("scale").and_then(|x| x.as_u64()).unwrap_or(0)),
        }
    }
    pub fn up(&self, units: u64) -> u128 {
        (units as u128).checked_mul(self.u).unwrap_or_else(|| panic!("harness: {units} units do not fit u128 at scale {}", self.u))
    }
    pub fn down(&self, v: u128, what: &str) -> i64 {
        if v % self.u != 0 {
            self.anomalies.borrow_mut().push(format!("{what}: {v} is not a multiple of the run's scale {}", self.u));
            return -7;
        }
        let q = v / self.u;
        if q >= (1u128 << 30) {
            self.anomalies.borrow_mut().push(format!("{what}: {v} / scale does not fit the model's integers"));
            return -8;
        }
        q as i64
    }
    /// maxAmt of the run in model units: floor((2^128-1)/U) if below 2^30, else -1 (unreachable)
    pub fn max_amt(&self) -> i64 {
        let m = u128::MAX / self.u;
        if m < (1u128 << 30) { m as i64 } else { -1 }
    }
    pub fn take_anomalies(&self) -> Vec<String> {
        std::mem::take(&mut *self.anomalies.borrow_mut())
    }
}

// ------------------------------------------------------------------------------------- output
pub struct Out {
    w: std::io::BufWriter<std::fs::File>,
    pub events: u64,
    pub runs: u64,
    pub counts: BTreeMap<String, (u64, u64)>, // act -> (attempted, succeeded)
    pub last: Option<Value>,
    pub in_run: bool,
}
impl Out {
    pub fn create(path: &str) -> Self {
        let f = std::fs::File::create(path).unwrap_or_else(|e| panic!("cannot create {path}: {e}"));
        Out { w: std::io::BufWriter::with_capacity(1 << 20, f), events: 0, runs: 0, counts: BTreeMap::new(), last: None, in_run: false }
    }
    pub fn emit(&mut self, ev0: &Value) {
        let extra: Vec<String> = GLOBAL_ANOM.with(|a| std::mem::take(&mut *a.borrow_mut()));
        let merged;
        let ev: &Value = if extra.is_empty() { ev0 } else {
            let mut e = ev0.clone();
            let mut l = e.get("anom").and_then(|x| x.as_array()).cloned().unwrap_or_default();
            l.extend(extra.into_iter().map(Value::String));
            e["anom"] = Value::Array(l);
            merged = e;
            &merged
        };
        let act = ev.get("act").and_then(|a| a.as_str()).unwrap_or("?").to_string();
        let ok = ev.get("ok").and_then(|a| a.as_bool()).unwrap_or(true);
        let c = self.counts.entry(act.clone()).or_insert((0, 0));
        c.0 += 1;
        if ok {
            c.1 += 1;
        }
        if act == "reset" {
            self.runs += 1;
            self.in_run = true;
        }
        self.last = Some(ev.clone());
        self.events += 1;
        serde_json::to_writer(&mut self.w, ev).unwrap();
        self.w.write_all(b"\n").unwrap();
    }
    pub fn finish(mut self, stats_path: Option<&str>) {
        self.w.flush().unwrap();
        if let Some(p) = stats_path {
            let mut m = Map::new();
            m.insert("events".into(), json!(self.events));
            m.insert("runs".into(), json!(self.runs));
            let mut c = Map::new();
            for (k, v) in &self.counts {
                c.insert(k.clone(), json!({"attempted": v.0, "ok": v.1}));
            }
            m.insert("actions".into(), Value::Object(c));
            std::fs::write(p, serde_json::to_string_pretty(&Value::Object(m)).unwrap()).unwrap();
        }
    }
}

// ------------------------------------------------------------------------------------ helpers
/// model expiration {"k":"h"|"t"|"never","v":n} -> cw_utils::Expiration
pub fn exp_to_chain(e: &Value) -> cw_utils::Expiration {
    let k = e.get("k").and_then(|x| x.as_str()).unwrap_or("never");
    let v = e.get("v").and_then(|x| x.as_u64()).unwrap_or(0);
    match k {
        "h" => cw_utils::Expiration::AtHeight(H0 + v),
        "t" => cw_utils::Expiration::AtTime(chain_time(v)),
        _ => cw_utils::Expiration::Never {},
    }
}
/// cw_utils::Expiration -> model; values before the origin are clamped to 0 (already expired at
/// every model instant, which is all the model can tell about them)
pub fn exp_to_model(e: &cw_utils::Expiration) -> Value {
    match e {
        cw_utils::Expiration::AtHeight(h) => json!({"k":"h","v": h.saturating_sub(H0)}),
        cw_utils::Expiration::AtTime(t) => {
            // ticks since the origin, rounded up: expired(now) <=> now >= release, and now is always on a tick
            let n = t.nanos().saturating_sub(T0 * TICKS * TICK_NANOS);
            json!({"k":"t","v": (n + TICK_NANOS - 1) / TICK_NANOS})
        }
        cw_utils::Expiration::Never {} => json!({"k":"never","v":0}),
    }
}

pub fn s(v: &Value, k: &str) -> String {
    v.get(k).and_then(|x| x.as_str()).unwrap_or_else(|| panic!("schedule field {k} missing in {v}")).to_string()
}
pub fn n(v: &Value, k: &str) -> u64 {
    v.get(k).and_then(|x| x.as_u64()).unwrap_or_else(|| panic!("schedule field {k} missing in {v}"))
}
pub fn opt_s(v: &Value, k: &str) -> Option<String> {
    v.get(k).and_then(|x| x.as_str()).map(|x| x.to_string())
}

pub fn bin(s: &str) -> Binary {
    to_json_binary(&s).unwrap()
}
