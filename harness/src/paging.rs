//! C20: every paginated listing of the suite. For each listing the harness builds states with
//! 0..45 items (also after deletions / with filtered items), determines the true item set from the keys
//! it created, issues page requests (limits absent, 0, 1, ..., above 30; cursors absent, from previous
//! pages, existing keys, keys between/before/after the existing ones) and full walks, and records
//! request and answer in rank space; TLC decides (PagingTrace.tla).
use crate::common::*;
use cosmwasm_std::{coin, coins, to_json_binary, Addr, Binary, Coin, Empty, Uint128};
use cw4::Member;
use cw_multi_test::{Contract, ContractWrapper, Executor};
use cw_utils::{Duration, Expiration, Threshold};
use serde_json::{json, Value};

type Fetch = Box<dyn Fn(&World, Option<String>, Option<u32>) -> Vec<String>>;

struct Listing {
    name: String,
    rev: bool,
    numeric: bool,
    truth: Vec<String>, // current items in the listing's own order
    fetch: Fetch,
    extra_cursors: Vec<String>, // valid keys that are not items
}

fn rank_of(l: &Listing, key: &str) -> i64 {
    // existing item at position r (1-based) -> 2r; a key between positions r and r+1 (or before all, r = 0) -> 2r+1
    let asc: Vec<&String> = if l.rev { l.truth.iter().rev().collect() } else { l.truth.iter().collect() };
    let less = |a: &str, b: &str| -> bool {
        if l.numeric { a.parse::<u64>().unwrap_or(0) < b.parse::<u64>().unwrap_or(0) } else { a.as_bytes() < b.as_bytes() }
    };
    let mut below = 0i64;
    for (i, k) in asc.iter().enumerate() {
        if k.as_str() == key {
            return 2 * (i as i64 + 1);
        }
        if less(k, key) {
            below += 1;
        }
    }
    2 * below + 1
}

fn emit_reset(out: &mut Out, run: u64, what: &str) {
    out.emit(&json!({"act":"reset","sys":"paging","run":run,"listing":what,"ok":true,"panic":false,"anom":[]}));
}

fn exercise(w: &World, l: &Listing, rng: &mut Rng, out: &mut Out, run: &mut u64) {
    *run += 1;
    emit_reset(out, *run, &l.name);
    let n = l.truth.len() as i64;
    let limits: [i64; 12] = [-1, 0, 1, 2, 3, 9, 10, 11, 29, 30, 31, 100];
    let page = |cursor: Option<String>, limit: i64, out: &mut Out| -> Vec<String> {
        let lim = if limit < 0 { None } else { Some(limit as u32) };
        let res = guarded(|| (l.fetch)(w, cursor.clone(), lim));
        let (keys, ok) = match res {
            Ok(k) => (k, true),
            Err(_) => (vec![], false),
        };
        let crank = cursor.as_ref().map(|c| rank_of(l, c)).unwrap_or(0);
        let ranks: Vec<i64> = keys.iter().map(|k| { let r = rank_of(l, k); if r % 2 == 0 { r } else { -1 } }).collect();
        out.emit(&json!({"act":"page","listing":l.name,"rev":l.rev,"n":n,"cursor":crank,"limit":limit,"keys":ranks,"ok":ok,"panic":!ok,"anom":[]}));
        keys
    };
    // full walks with every limit >= 1: every item once, in order
    for lim in limits {
        if lim == 0 {
            page(None, 0, out);
            continue;
        }
        let mut all: Vec<String> = vec![];
        let mut cursor: Option<String> = None;
        let mut guard = 0;
        loop {
            let keys = page(cursor.clone(), lim, out);
            if keys.is_empty() {
                break;
            }
            cursor = Some(keys.last().unwrap().clone());
            all.extend(keys);
            guard += 1;
            if guard > 200 {
                break;
            }
        }
        let ranks: Vec<i64> = all.iter().map(|k| { let r = rank_of(l, k); if r % 2 == 0 { r } else { -1 } }).collect();
        out.emit(&json!({"act":"walk","listing":l.name,"rev":l.rev,"n":n,"cursor":0,"limit":lim,"keys":ranks,"ok":true,"panic":false,"anom":[]}));
    }
    // cursors at and between arbitrary keys
    let mut cursors: Vec<String> = l.extra_cursors.clone();
    for _ in 0..6 {
        if !l.truth.is_empty() {
            cursors.push(rng.pick(&l.truth).clone());
        }
    }
    if let Some(f) = l.truth.first() { cursors.push(f.clone()); }
    if let Some(f) = l.truth.last() { cursors.push(f.clone()); }
    for c in cursors {
        let lim = *rng.pick(&limits);
        page(Some(c.clone()), lim, out);
        page(Some(c), -1, out);
    }
}

fn sorted(mut v: Vec<String>) -> Vec<String> {
    v.sort_by(|a, b| a.as_bytes().cmp(b.as_bytes()));
    v
}
fn nums(n: u64) -> Vec<String> {
    (1..=n).map(|i| i.to_string()).collect()
}

pub fn run_all(rng: &mut Rng, sizes: &[usize], out: &mut Out) {
    let mut run = 0u64;
    for &n in sizes {
        cw20_listings(n, rng, out, &mut run);
        cw1_listings(n, rng, out, &mut run);
        cw3_listings(n, false, rng, out, &mut run);
        cw3_listings(n, true, rng, out, &mut run);
        cw4_listings(n, rng, out, &mut run);
        ics20_listing(n, rng, out, &mut run);
    }
}

fn addrs(w: &mut World, prefix: &str, n: usize) -> Vec<Addr> {
    (0..n).map(|i| w.user(&format!("{prefix}{i}"))).collect()
}
fn outsiders(w: &mut World) -> Vec<String> {
    (0..4).map(|i| w.user(&format!("zz{i}")).to_string()).collect()
}

fn cw20_listings(n: usize, rng: &mut Rng, out: &mut Out, run: &mut u64) {
    let mut w = World::new();
    let creator = w.user("creator");
    let holders = addrs(&mut w, "p", n);
    let extra = outsiders(&mut w);
    let code = w.app.store_code(crate::cw20::token_code());
    let owner = w.user("owner");
    let spender = w.user("spender");
    let mut init: Vec<cw20::Cw20Coin> = holders.iter().map(|a| cw20::Cw20Coin { address: a.to_string(), amount: Uint128::new(5) }).collect();
    init.push(cw20::Cw20Coin { address: owner.to_string(), amount: Uint128::new(1000) });
    let msg = cw20_base::msg::InstantiateMsg { name: "Paging".into(), symbol: "PAG".into(), decimals: 6, initial_balances: init, mint: None, marketing: None };
    let tok = w.app.instantiate_contract(code, creator, &msg, &[], "tok", None).unwrap();
    // accounts (some of them emptied: an account with balance 0 is still an account of the listing)
    for (i, h) in holders.iter().enumerate() {
        if i % 4 == 2 {
            w.app.execute_contract(h.clone(), tok.clone(), &cw20::Cw20ExecuteMsg::Transfer { recipient: owner.to_string(), amount: Uint128::new(5) }, &[]).unwrap();
        }
    }
    let mut accts: Vec<String> = holders.iter().map(|a| a.to_string()).collect();
    accts.push(owner.to_string());
    let t1 = tok.clone();
    let l = Listing {
        name: "cw20.all_accounts".into(), rev: false, numeric: false, truth: sorted(accts), extra_cursors: extra.clone(),
        fetch: Box::new(move |w, c, lim| {
            let r: cw20::AllAccountsResponse = w.smart(&t1, &cw20_base::msg::QueryMsg::AllAccounts { start_after: c, limit: lim }).unwrap();
            r.accounts
        }),
    };
    exercise(&w, &l, rng, out, run);
    // owner's allowances to n spenders (some revoked again)
    let mut granted: Vec<String> = vec![];
    for (i, s) in holders.iter().enumerate() {
        w.app.execute_contract(owner.clone(), tok.clone(), &cw20::Cw20ExecuteMsg::IncreaseAllowance { spender: s.to_string(), amount: Uint128::new(3), expires: None }, &[]).unwrap();
        if i % 7 == 3 {
            w.app.execute_contract(owner.clone(), tok.clone(), &cw20::Cw20ExecuteMsg::DecreaseAllowance { spender: s.to_string(), amount: Uint128::new(3), expires: None }, &[]).unwrap();
        } else {
            granted.push(s.to_string());
        }
    }
    let (t2, o2) = (tok.clone(), owner.clone());
    let l = Listing {
        name: "cw20.all_allowances".into(), rev: false, numeric: false, truth: sorted(granted), extra_cursors: extra.clone(),
        fetch: Box::new(move |w, c, lim| {
            let r: cw20::AllAllowancesResponse = w.smart(&t2, &cw20_base::msg::QueryMsg::AllAllowances { owner: o2.to_string(), start_after: c, limit: lim }).unwrap();
            r.allowances.into_iter().map(|a| a.spender).collect()
        }),
    };
    exercise(&w, &l, rng, out, run);
    // an owner that never held a token grants allowances too: its listing is as complete as anybody's
    let poor = w.user("poor");
    for s in holders.iter() {
        w.app.execute_contract(poor.clone(), tok.clone(), &cw20::Cw20ExecuteMsg::IncreaseAllowance { spender: s.to_string(), amount: Uint128::new(1), expires: None }, &[]).unwrap();
    }
    let (t5, o5) = (tok.clone(), poor.clone());
    let l = Listing {
        name: "cw20.all_allowances.unfunded".into(), rev: false, numeric: false, truth: sorted(holders.iter().map(|a| a.to_string()).collect()), extra_cursors: extra.clone(),
        fetch: Box::new(move |w, c, lim| {
            let r: cw20::AllAllowancesResponse = w.smart(&t5, &cw20_base::msg::QueryMsg::AllAllowances { owner: o5.to_string(), start_after: c, limit: lim }).unwrap();
            r.allowances.into_iter().map(|a| a.spender).collect()
        }),
    };
    exercise(&w, &l, rng, out, run);
    // n owners grant to one spender
    let mut owners: Vec<String> = vec![];
    for (i, o) in holders.iter().enumerate() {
        w.app.execute_contract(o.clone(), tok.clone(), &cw20::Cw20ExecuteMsg::IncreaseAllowance { spender: spender.to_string(), amount: Uint128::new(2), expires: None }, &[]).unwrap();
        // mutual grants: the spender also grants to every owner, and withdraws some of them again
        w.app.execute_contract(spender.clone(), tok.clone(), &cw20::Cw20ExecuteMsg::IncreaseAllowance { spender: o.to_string(), amount: Uint128::new(2), expires: None }, &[]).unwrap();
        if i % 4 == 1 {
            w.app.execute_contract(spender.clone(), tok.clone(), &cw20::Cw20ExecuteMsg::DecreaseAllowance { spender: o.to_string(), amount: Uint128::new(2), expires: None }, &[]).unwrap();
        }
        if i % 5 == 2 {
            // the owner withdraws its grant: it must disappear from the spender's listing
            w.app.execute_contract(o.clone(), tok.clone(), &cw20::Cw20ExecuteMsg::DecreaseAllowance { spender: spender.to_string(), amount: Uint128::new(5), expires: None }, &[]).unwrap();
        } else {
            owners.push(o.to_string());
        }
    }
    let (t3, s3) = (tok.clone(), spender.clone());
    let l = Listing {
        name: "cw20.all_spender_allowances".into(), rev: false, numeric: false, truth: sorted(owners), extra_cursors: extra,
        fetch: Box::new(move |w, c, lim| {
            let r: cw20::AllSpenderAllowancesResponse = w.smart(&t3, &cw20_base::msg::QueryMsg::AllSpenderAllowances { spender: s3.to_string(), start_after: c, limit: lim }).unwrap();
            r.allowances.into_iter().map(|a| a.owner).collect()
        }),
    };
    exercise(&w, &l, rng, out, run);
    // the same listing on a token deployed by a pre-0.14 release (no per-spender index) and upgraded later: some of the
    // grants have expired by the time of the upgrade; the listing still has to show every stored grant
    let creator = w.addr("creator");
    let msg = cw20_base::msg::InstantiateMsg {
        name: "Old".into(), symbol: "OLD".into(), decimals: 6,
        initial_balances: holders.iter().map(|a| cw20::Cw20Coin { address: a.to_string(), amount: Uint128::new(5) }).collect(), mint: None, marketing: None,
    };
    let old = w.app.instantiate_contract(code, creator.clone(), &msg, &[], "old", Some(creator.to_string())).unwrap();
    let h = w.app.block_info().height;
    for (i, o) in holders.iter().enumerate() {
        let expires = match i % 3 { 0 => Some(cw_utils::Expiration::AtHeight(h + 2)), 1 => Some(cw_utils::Expiration::AtHeight(h + 1000)), _ => None };
        w.app.execute_contract(o.clone(), old.clone(), &cw20::Cw20ExecuteMsg::IncreaseAllowance { spender: spender.to_string(), amount: Uint128::new(2), expires }, &[]).unwrap();
    }
    let prefix = { let ns = b"allowance_spender"; let mut p = (ns.len() as u16).to_be_bytes().to_vec(); p.extend_from_slice(ns); p };
    for (k, _) in w.app.dump_wasm_raw(&old) {
        if k.starts_with(&prefix) {
            w.app.wasm_sudo(old.clone(), &RawOp::RawRemove { key: Binary::from(k) }).unwrap();
        }
    }
    let ver = json!({"contract":"crates.io:cw20-base","version":"0.13.4"});
    w.app.wasm_sudo(old.clone(), &RawOp::RawSet { key: Binary::from(b"contract_info".to_vec()), value: Binary::from(serde_json::to_vec(&ver).unwrap()) }).unwrap();
    w.app.update_block(|b| b.height += 5);
    w.app.migrate_contract(creator, old.clone(), &cw20_base::msg::MigrateMsg {}, code).unwrap();
    let (t4, s4) = (old.clone(), spender.clone());
    let l = Listing {
        name: "cw20.all_spender_allowances.upgraded".into(), rev: false, numeric: false, truth: sorted(holders.iter().map(|a| a.to_string()).collect()), extra_cursors: outsiders(&mut w),
        fetch: Box::new(move |w, c, lim| {
            let r: cw20::AllSpenderAllowancesResponse = w.smart(&t4, &cw20_base::msg::QueryMsg::AllSpenderAllowances { spender: s4.to_string(), start_after: c, limit: lim }).unwrap();
            r.allowances.into_iter().map(|a| a.owner).collect()
        }),
    };
    exercise(&w, &l, rng, out, run);
}

fn cw1_listings(n: usize, rng: &mut Rng, out: &mut Out, run: &mut u64) {
    let mut w = World::new();
    w.set_clock(10, 100);
    let creator = w.user("creator");
    let admin = w.user("admin");
    let keys = addrs(&mut w, "k", n);
    let extra = outsiders(&mut w);
    let code: Box<dyn Contract<Empty>> = Box::new(ContractWrapper::new(cw1_subkeys::contract::execute, cw1_subkeys::contract::instantiate, cw1_subkeys::contract::query));
    let id = w.app.store_code(code);
    let c = w.app.instantiate_contract(id, creator, &cw1_whitelist::msg::InstantiateMsg { admins: vec![admin.to_string()], mutable: true }, &[], "subkeys", None).unwrap();
    let mut live: Vec<String> = vec![];
    let mut perms: Vec<String> = vec![];
    for (i, k) in keys.iter().enumerate() {
        // every third allowance expires before the listing is taken: the listing filters them out
        let expires = if i % 3 == 1 { Some(Expiration::AtHeight(H0 + 12)) } else if i % 3 == 2 { Some(Expiration::AtHeight(H0 + 500)) } else { None };
        let m: cw1_subkeys::msg::ExecuteMsg = cw1_subkeys::msg::ExecuteMsg::IncreaseAllowance { spender: k.to_string(), amount: coin(5, "ucosm"), expires };
        w.app.execute_contract(admin.clone(), c.clone(), &m, &[]).unwrap();
        if i % 3 != 1 {
            live.push(k.to_string());
        }
        if i % 2 == 0 {
            let p: cw1_subkeys::msg::ExecuteMsg = cw1_subkeys::msg::ExecuteMsg::SetPermissions { spender: k.to_string(), permissions: cw1_subkeys::state::Permissions { delegate: true, redelegate: false, undelegate: i % 4 == 0, withdraw: false } };
            w.app.execute_contract(admin.clone(), c.clone(), &p, &[]).unwrap();
            perms.push(k.to_string());
        }
    }
    // some keys with grants are promoted to admins afterwards: their entries stay entries of the listings
    let mut new_admins: Vec<String> = vec![admin.to_string()];
    new_admins.extend(keys.iter().enumerate().filter(|(i, _)| i % 4 == 0).map(|(_, k)| k.to_string()));
    let m: cw1_subkeys::msg::ExecuteMsg = cw1_subkeys::msg::ExecuteMsg::UpdateAdmins { admins: new_admins };
    w.app.execute_contract(admin.clone(), c.clone(), &m, &[]).unwrap();
    w.set_clock(20, 200);
    let c1 = c.clone();
    let l = Listing {
        name: "cw1_subkeys.all_allowances".into(), rev: false, numeric: false, truth: sorted(live), extra_cursors: extra.clone(),
        fetch: Box::new(move |w, cur, lim| {
            let q: cw1_subkeys::msg::QueryMsg = cw1_subkeys::msg::QueryMsg::AllAllowances { start_after: cur, limit: lim };
            let r: cw1_subkeys::msg::AllAllowancesResponse = w.smart(&c1, &q).unwrap();
            r.allowances.into_iter().map(|a| a.spender).collect()
        }),
    };
    exercise(&w, &l, rng, out, run);
    let c2 = c.clone();
    let l = Listing {
        name: "cw1_subkeys.all_permissions".into(), rev: false, numeric: false, truth: sorted(perms), extra_cursors: extra,
        fetch: Box::new(move |w, cur, lim| {
            let q: cw1_subkeys::msg::QueryMsg = cw1_subkeys::msg::QueryMsg::AllPermissions { start_after: cur, limit: lim };
            let r: cw1_subkeys::msg::AllPermissionsResponse = w.smart(&c2, &q).unwrap();
            r.permissions.into_iter().map(|a| a.spender).collect()
        }),
    };
    exercise(&w, &l, rng, out, run);
}

fn cw3_listings(n: usize, flex: bool, rng: &mut Rng, out: &mut Out, run: &mut u64) {
    let mut w = World::new();
    w.app.update_block(|b| b.height -= 5);
    let creator = w.user("creator");
    let voters = addrs(&mut w, "v", n.max(1));
    let extra = outsiders(&mut w);
    let thr = Threshold::AbsoluteCount { weight: 1 };
    let ms: Addr;
    if flex {
        let gcode: Box<dyn Contract<Empty>> = Box::new(ContractWrapper::new(cw4_group::contract::execute, cw4_group::contract::instantiate, cw4_group::contract::query));
        let gid = w.app.store_code(gcode);
        // (weight 0 is a valid weight: such members are listed like everybody else)
        let members: Vec<Member> = voters.iter().enumerate().map(|(i, v)| Member { addr: v.to_string(), weight: if i % 3 == 1 { 0 } else { 1 } }).collect();
        let g = w.app.instantiate_contract(gid, creator.clone(), &cw4_group::msg::InstantiateMsg { admin: None, members }, &[], "g", None).unwrap();
        w.app.update_block(|b| b.height += 5);
        let code: Box<dyn Contract<Empty>> = Box::new(ContractWrapper::new(cw3_flex_multisig::contract::execute, cw3_flex_multisig::contract::instantiate, cw3_flex_multisig::contract::query));
        let id = w.app.store_code(code);
        let msg = cw3_flex_multisig::msg::InstantiateMsg { group_addr: g.to_string(), threshold: thr, max_voting_period: Duration::Height(1000), executor: None, proposal_deposit: None };
        ms = w.app.instantiate_contract(id, creator.clone(), &msg, &[], "ms", None).unwrap();
    } else {
        w.app.update_block(|b| b.height += 5);
        let code: Box<dyn Contract<Empty>> = Box::new(ContractWrapper::new(cw3_fixed_multisig::contract::execute, cw3_fixed_multisig::contract::instantiate, cw3_fixed_multisig::contract::query));
        let id = w.app.store_code(code);
        let msg = cw3_fixed_multisig::msg::InstantiateMsg { voters: voters.iter().enumerate().map(|(i, v)| cw3_fixed_multisig::msg::Voter { addr: v.to_string(), weight: if i % 3 == 1 { 0 } else { 1 } }).collect(), threshold: thr, max_voting_period: Duration::Height(1000) };
        ms = w.app.instantiate_contract(id, creator.clone(), &msg, &[], "ms", None).unwrap();
    }
    let pfx = if flex { "cw3_flex" } else { "cw3_fixed" };
    // voters
    let m1 = ms.clone();
    let l = Listing {
        name: format!("{pfx}.list_voters"), rev: false, numeric: false, truth: sorted(voters.iter().map(|v| v.to_string()).collect()), extra_cursors: extra.clone(),
        fetch: Box::new(move |w, c, lim| {
            let r: cw3::VoterListResponse = w.smart(&m1, &cw3_fixed_multisig::msg::QueryMsg::ListVoters { start_after: c, limit: lim }).unwrap();
            r.voters.into_iter().map(|v| v.addr).collect()
        }),
    };
    exercise(&w, &l, rng, out, run);
    // n proposals, forward and reverse
    for i in 0..n {
        let m = cw3_fixed_multisig::msg::ExecuteMsg::Propose { title: format!("t{i}"), description: "d".into(), msgs: vec![], latest: None };
        w.app.execute_contract(voters[0].clone(), ms.clone(), &m, &[]).unwrap();
    }
    let extra_ids = vec!["0".to_string(), (n as u64 + 5).to_string()];
    let m2 = ms.clone();
    let l = Listing {
        name: format!("{pfx}.list_proposals"), rev: false, numeric: true, truth: nums(n as u64), extra_cursors: extra_ids.clone(),
        fetch: Box::new(move |w, c, lim| {
            let r: cw3::ProposalListResponse = w.smart(&m2, &cw3_fixed_multisig::msg::QueryMsg::ListProposals { start_after: c.map(|x| x.parse().unwrap()), limit: lim }).unwrap();
            r.proposals.into_iter().map(|p| p.id.to_string()).collect()
        }),
    };
    exercise(&w, &l, rng, out, run);
    let m3 = ms.clone();
    let mut rev_truth = nums(n as u64);
    rev_truth.reverse();
    let l = Listing {
        name: format!("{pfx}.reverse_proposals"), rev: true, numeric: true, truth: rev_truth, extra_cursors: extra_ids,
        fetch: Box::new(move |w, c, lim| {
            let r: cw3::ProposalListResponse = w.smart(&m3, &cw3_fixed_multisig::msg::QueryMsg::ReverseProposals { start_before: c.map(|x| x.parse().unwrap()), limit: lim }).unwrap();
            r.proposals.into_iter().map(|p| p.id.to_string()).collect()
        }),
    };
    exercise(&w, &l, rng, out, run);
    // votes on one proposal by all voters
    let m = cw3_fixed_multisig::msg::ExecuteMsg::Propose { title: "votes".into(), description: "d".into(), msgs: vec![], latest: None };
    w.app.execute_contract(voters[0].clone(), ms.clone(), &m, &[]).unwrap();
    let pid = n as u64 + 1;
    let mut balloted = vec![voters[0].to_string()];
    for (i, v) in voters.iter().enumerate().skip(1) {
        if i % 3 == 1 {
            continue; // weight 0: listed as a voter, cannot cast a ballot
        }
        let m = cw3_fixed_multisig::msg::ExecuteMsg::Vote { proposal_id: pid, vote: cw3::Vote::Yes };
        w.app.execute_contract(v.clone(), ms.clone(), &m, &[]).unwrap();
        balloted.push(v.to_string());
    }
    let m4 = ms.clone();
    let l = Listing {
        name: format!("{pfx}.list_votes"), rev: false, numeric: false, truth: sorted(balloted), extra_cursors: extra,
        fetch: Box::new(move |w, c, lim| {
            let r: cw3::VoteListResponse = w.smart(&m4, &cw3_fixed_multisig::msg::QueryMsg::ListVotes { proposal_id: pid, start_after: c, limit: lim }).unwrap();
            r.votes.into_iter().map(|v| v.voter).collect()
        }),
    };
    exercise(&w, &l, rng, out, run);
}

fn cw4_listings(n: usize, rng: &mut Rng, out: &mut Out, run: &mut u64) {
    let mut w = World::new();
    let creator = w.user("creator");
    let admin = w.user("admin");
    let members = addrs(&mut w, "m", n);
    let extra = outsiders(&mut w);
    let gcode: Box<dyn Contract<Empty>> = Box::new(ContractWrapper::new(cw4_group::contract::execute, cw4_group::contract::instantiate, cw4_group::contract::query));
    let gid = w.app.store_code(gcode);
    let ms: Vec<Member> = members.iter().enumerate().map(|(i, v)| Member { addr: v.to_string(), weight: if i % 3 == 1 { 0 } else { 2 } }).collect();
    let g = w.app.instantiate_contract(gid, creator.clone(), &cw4_group::msg::InstantiateMsg { admin: Some(admin.to_string()), members: ms }, &[], "g", None).unwrap();
    // remove a few again
    let removed: Vec<String> = members.iter().enumerate().filter(|(i, _)| i % 6 == 2).map(|(_, a)| a.to_string()).collect();
    w.app.execute_contract(admin.clone(), g.clone(), &cw4_group::msg::ExecuteMsg::UpdateMembers { remove: removed.clone(), add: vec![] }, &[]).unwrap();
    let truth: Vec<String> = members.iter().map(|a| a.to_string()).filter(|a| !removed.contains(a)).collect();
    let g1 = g.clone();
    let l = Listing {
        name: "cw4_group.list_members".into(), rev: false, numeric: false, truth: sorted(truth), extra_cursors: extra.clone(),
        fetch: Box::new(move |w, c, lim| {
            let r: cw4::MemberListResponse = w.smart(&g1, &cw4_group::msg::QueryMsg::ListMembers { start_after: c, limit: lim }).unwrap();
            r.members.into_iter().map(|m| m.addr).collect()
        }),
    };
    exercise(&w, &l, rng, out, run);
    // cw4-stake: n stakers
    let scode: Box<dyn Contract<Empty>> = Box::new(ContractWrapper::new(cw4_stake::contract::execute, cw4_stake::contract::instantiate, cw4_stake::contract::query));
    let sid = w.app.store_code(scode);
    let ms2 = members.clone();
    w.app.init_modules(|router, _, storage| {
        for u in &ms2 {
            router.bank.init_balance(storage, u, vec![Coin::new(100u128, "ustk")]).unwrap();
        }
    });
    let msg = cw4_stake::msg::InstantiateMsg { denom: cw20::Denom::Native("ustk".into()), tokens_per_weight: Uint128::new(1), min_bond: Uint128::new(2), unbonding_period: Duration::Height(5), admin: None };
    let st = w.app.instantiate_contract(sid, creator, &msg, &[], "s", None).unwrap();
    let mut stakers = vec![];
    for (i, m) in members.iter().enumerate() {
        w.app.execute_contract(m.clone(), st.clone(), &cw4_stake::msg::ExecuteMsg::Bond {}, &coins(if i % 5 == 4 { 1 } else { 3 }, "ustk")).unwrap();
        if i % 5 != 4 {
            stakers.push(m.to_string()); // below min_bond: staked but not a member
        }
    }
    let s1 = st.clone();
    let l = Listing {
        name: "cw4_stake.list_members".into(), rev: false, numeric: false, truth: sorted(stakers), extra_cursors: extra,
        fetch: Box::new(move |w, c, lim| {
            let r: cw4::MemberListResponse = w.smart(&s1, &cw4_stake::msg::QueryMsg::ListMembers { start_after: c, limit: lim }).unwrap();
            r.members.into_iter().map(|m| m.addr).collect()
        }),
    };
    exercise(&w, &l, rng, out, run);
    // cw4-stake over a cw20 token: members bond through the token's Send; one more bond arrives through a token that
    // spells the sender carelessly (upper case): it is refused, and the listing still pages through its real members
    let creator = w.addr("creator");
    let tid = w.app.store_code(crate::ics20::FlakyToken::boxed());
    let tmsg = cw20_base::msg::InstantiateMsg {
        name: "Stake".into(), symbol: "STK".into(), decimals: 6,
        initial_balances: members.iter().map(|a| cw20::Cw20Coin { address: a.to_string(), amount: Uint128::new(100) }).collect(), mint: None, marketing: None,
    };
    let tok = w.app.instantiate_contract(tid, creator.clone(), &tmsg, &[], "stk", None).unwrap();
    let msg = cw4_stake::msg::InstantiateMsg { denom: cw20::Denom::Cw20(tok.clone()), tokens_per_weight: Uint128::new(1), min_bond: Uint128::new(2), unbonding_period: Duration::Height(5), admin: None };
    let st2 = w.app.instantiate_contract(sid, creator, &msg, &[], "s2", None).unwrap();
    let bond = |w: &mut World, who: &Addr, amt: u128| {
        let m = cw20::Cw20ExecuteMsg::Send { contract: st2.to_string(), amount: Uint128::new(amt), msg: to_json_binary(&json!({"bond":{}})).unwrap() };
        w.app.execute_contract(who.clone(), tok.clone(), &m, &[])
    };
    let mut stakers2 = vec![];
    for (i, m) in members.iter().enumerate() {
        if i % 3 != 0 {
            bond(&mut w, m, 3).unwrap();
            stakers2.push(m.to_string());
        }
    }
    w.app.wasm_sudo(tok.clone(), &json!({"sloppy": true})).unwrap();
    for (i, m) in members.iter().enumerate() {
        if i % 3 == 0 && i % 2 == 0 {
            let _ = bond(&mut w, m, 3); // refused by a correct contract
        }
    }
    w.app.wasm_sudo(tok.clone(), &json!({"sloppy": false})).unwrap();
    let s2 = st2.clone();
    let l = Listing {
        name: "cw4_stake.list_members.cw20".into(), rev: false, numeric: false, truth: sorted(stakers2), extra_cursors: outsiders(&mut w),
        fetch: Box::new(move |w, c, lim| {
            let r: cw4::MemberListResponse = w.smart(&s2, &cw4_stake::msg::QueryMsg::ListMembers { start_after: c, limit: lim }).unwrap();
            r.members.into_iter().map(|m| m.addr).collect()
        }),
    };
    exercise(&w, &l, rng, out, run);
}

fn ics20_listing(n: usize, rng: &mut Rng, out: &mut Out, run: &mut u64) {
    let mut w = World::new();
    let creator = w.user("creator");
    let gov = w.user("gov");
    let toks = addrs(&mut w, "t", n);
    let extra = outsiders(&mut w);
    let code: Box<dyn Contract<Empty>> = Box::new(ContractWrapper::new(cw20_ics20::contract::execute, cw20_ics20::contract::instantiate, cw20_ics20::contract::query));
    let id = w.app.store_code(code);
    let half = n / 2;
    let init = cw20_ics20::msg::InitMsg {
        default_timeout: 100,
        gov_contract: gov.to_string(),
        allowlist: toks.iter().take(half).map(|t| cw20_ics20::msg::AllowMsg { contract: t.to_string(), gas_limit: None }).collect(),
        default_gas_limit: None,
    };
    let c = w.app.instantiate_contract(id, creator, &init, &[], "ics", None).unwrap();
    for t in toks.iter().skip(half) {
        let m = cw20_ics20::msg::ExecuteMsg::Allow(cw20_ics20::msg::AllowMsg { contract: t.to_string(), gas_limit: Some(7) });
        w.app.execute_contract(gov.clone(), c.clone(), &m, &[]).unwrap();
    }
    let _ = to_json_binary(&0u8);
    let c1 = c.clone();
    let l = Listing {
        name: "cw20_ics20.list_allowed".into(), rev: false, numeric: false, truth: sorted(toks.iter().map(|t| t.to_string()).collect()), extra_cursors: extra,
        fetch: Box::new(move |w, cur, lim| {
            let r: cw20_ics20::msg::ListAllowedResponse = w.smart(&c1, &cw20_ics20::msg::QueryMsg::ListAllowed { start_after: cur, limit: lim }).unwrap();
            r.allow.into_iter().map(|a| a.contract).collect()
        }),
    };
    exercise(&w, &l, rng, out, run);
}
