//! C04: calls the real cw3::Proposal::{is_passed,is_rejected,current_status} on a complete small
//! grid (same domain as Cw3ThresholdMC) and on boundary/random inputs at u64 magnitudes, and records
//! inputs and outputs; TLC decides (Cw3ThresholdTrace.tla).
use crate::common::*;
use cosmwasm_std::{Addr, BlockInfo, Decimal, Timestamp, Uint128};
use cw3::{Proposal, Status, Votes};
use cw_utils::{Expiration, Threshold};
use serde_json::{json, Value};

fn limbs(mut n: u128) -> Value {
    let mut l = vec![];
    while n > 0 {
        l.push((n % 10000) as u64);
        n /= 10000;
    }
    json!(l)
}

struct Case {
    thr: Threshold,
    total: u64,
    v: [u64; 4], // yes no abstain veto
    expired: bool,
}

fn eval(c: &Case) -> (bool, bool, bool, String, bool) {
    let block = BlockInfo { height: 1000, time: Timestamp::from_seconds(1_600_000_000), chain_id: "verif".into() };
    let prop = Proposal {
        title: "t".into(),
        description: "d".into(),
        start_height: 900,
        expires: if c.expired { Expiration::AtHeight(1000) } else { Expiration::AtHeight(1001) },
        msgs: vec![],
        status: Status::Open,
        threshold: c.thr.clone(),
        total_weight: c.total,
        votes: Votes { yes: c.v[0], no: c.v[1], abstain: c.v[2], veto: c.v[3] },
        proposer: Addr::unchecked("p"),
        deposit: None,
    };
    let r = guarded(|| {
        let p = prop.is_passed(&block);
        let r = prop.is_rejected(&block);
        let s = prop.current_status(&block);
        (p, r, s)
    });
    match r {
        Ok((p, r, s)) => {
            let st = match s {
                Status::Open => "open",
                Status::Passed => "passed",
                Status::Rejected => "rejected",
                Status::Executed => "executed",
                Status::Pending => "pending",
            };
            (p, r, false, st.to_string(), true)
        }
        Err(_) => (false, false, true, "panic".into(), false),
    }
}

fn thr_small(kind: &str, weight: u64, p: u64, q: u64) -> Threshold {
    match kind {
        "count" => Threshold::AbsoluteCount { weight },
        "pct" => Threshold::AbsolutePercentage { percentage: Decimal::permille(p) },
        _ => Threshold::ThresholdQuorum { threshold: Decimal::permille(p), quorum: Decimal::permille(q) },
    }
}

fn emit_reset(out: &mut Out, run: u64, what: &str) {
    out.emit(&json!({"act":"reset","sys":"thr","run":run,"what":what,"ok":true,"panic":false,"anom":[]}));
}

/// complete small domain: totals 0..max_t, every split, every threshold of the grid, expired or not
pub fn grid(max_t: u64, out: &mut Out) {
    let pcts = [500u64, 510, 667, 750, 1000];
    let quos = [1u64, 334, 500, 1000];
    let mut run = 0;
    let mut n = 0u64;
    for t in 0..=max_t {
        let mut thrs: Vec<(&str, u64, u64, u64)> = vec![];
        for w in 1..=t.max(1) {
            if w <= t {
                thrs.push(("count", w, 0, 0));
            }
        }
        for p in pcts {
            thrs.push(("pct", 0, p, 0));
            for q in quos {
                thrs.push(("quorum", 0, p, q));
            }
        }
        for y in 0..=t {
            for no in 0..=(t - y) {
                for ab in 0..=(t - y - no) {
                    for ve in 0..=(t - y - no - ab) {
                        for th in &thrs {
                            for expired in [false, true] {
                                if n % 4000 == 0 {
                                    run += 1;
                                    emit_reset(out, run, "grid");
                                }
                                n += 1;
                                let c = Case { thr: thr_small(th.0, th.1, th.2, th.3), total: t, v: [y, no, ab, ve], expired };
                                let (p, r, panic, st, _) = eval(&c);
                                out.emit(&json!({"act":"case","ok":true,"anom":[],
                                    "thr":{"kind":th.0,"weight":th.1,"p":th.2,"q":th.3},
                                    "T":t,"v":{"yes":y,"no":no,"abstain":ab,"veto":ve},"expired":expired,
                                    "passed":p,"rejected":r,"status":st,"panic":panic}));
                            }
                        }
                    }
                }
            }
        }
    }
}

fn upto(rng: &mut Rng, m: u64) -> u64 {
    // uniform in 0..=m
    if m == u64::MAX { rng.next() } else { rng.next() % (m + 1) }
}

fn rand_u64(rng: &mut Rng) -> u64 {
    match rng.below(8) {
        0 => u64::MAX,
        1 => u64::MAX - rng.below(3),
        2 => 1u64 << rng.range(1, 63),
        3 => (1u64 << rng.range(1, 63)) - 1 + rng.below(3),
        4 => rng.below(100),
        5 => rng.next() >> rng.range(0, 60),
        6 => 10u64.pow(rng.range(1, 19) as u32) - 1 + rng.below(3),
        _ => rng.next(),
    }
}

const P18: u128 = 1_000_000_000_000_000_000;

fn rand_pct(rng: &mut Rng, lo: u128, dec9: bool) -> u128 {
    // atomics of a Decimal in [lo, 10^18]
    let v = match rng.below(8) {
        0 => lo,
        1 => P18,
        2 => 500_000_000_000_000_000,
        3 => 666_666_666_666_666_667,
        4 => 333_333_333_000_000_000,
        5 => 510_000_000_000_000_000,
        _ => lo + (((rng.next() as u128) << 64 | rng.next() as u128) % (P18 - lo + 1)),
    };
    let v = v.clamp(lo.max(1), P18);
    if dec9 {
        let r = (v / 1_000_000_000) * 1_000_000_000;
        if r < lo.max(1) { (r + 1_000_000_000).min(P18) } else { r }
    } else {
        v
    }
}

fn ceil_needed(w: u64, p: u128) -> u64 {
    // exact ceil(w*p/10^18) in u128 (fits: 2^64 * 10^18 < 2^128)
    let x = (w as u128) * p;
    ((x + P18 - 1) / P18) as u64
}

pub fn random_big(rng: &mut Rng, cases: u64, out: &mut Out) {
    let mut run = 1000;
    for i in 0..cases {
        if i % 1500 == 0 {
            run += 1;
            emit_reset(out, run, "big");
        }
        let mut t = rand_u64(rng);
        let dec9 = rng.chance(2, 3);
        let mut kind = *rng.pick(&["count", "pct", "quorum"]);
        let mut p = rand_pct(rng, P18 / 2, dec9);
        let mut q = rand_pct(rng, 1, dec9);
        let mut near: Option<(u64, u64)> = None; // (opinions base w, integer m with w*p just above m)
        if rng.chance(1, 3) {
            // percentages for which weight * percentage lies a hair above an integer: the rounding of
            // votes_needed matters exactly here (7th-9th and 16th-18th decimal place)
            let w = if rng.chance(3, 4) { rng.range(2, 2000) } else { rng.range(2000, 2_000_000) };
            let m = rng.range((w + 1) / 2, w);
            let unit: u128 = if dec9 { 1_000_000_000 } else { 1 };
            let steps = P18 / unit;
            let base = ((m as u128) * steps + (w as u128) - 1) / (w as u128); // ceil(m/w) in units
            let pa = ((base + rng.below(3) as u128) * unit).clamp(P18 / 2, P18);
            kind = *rng.pick(&["pct", "quorum"]);
            p = pa;
            if kind == "quorum" && rng.chance(1, 2) {
                q = pa;
            }
            t = w + rng.below(4);
            near = Some((w, m));
        }
        let weight = if t == 0 { 1 } else { 1 + rng.next() % t };
        let expired = rng.chance(1, 2);
        // tally: abstain first, then yes around the requirement, the rest split
        let ab = if let Some((w, _)) = near { t - w } else { match rng.below(4) { 0 => 0, 1 => t, _ => upto(rng, t) } };
        let rest = t - ab;
        let target = match kind {
            "count" => weight,
            _ => ceil_needed(rest, p),
        };
        let target = if let Some((_, m)) = near { if rng.chance(1, 2) { m } else { m + 1 } } else { target };
        let y = match rng.below(6) {
            0 => target.saturating_sub(1),
            1 | 2 => target,
            3 => target.saturating_add(1),
            4 => 0,
            _ => upto(rng, rest),
        }
        .min(rest);
        let rest2 = rest - y;
        let ntarget = match kind {
            "count" => t - weight.min(t),
            _ => ceil_needed(rest, P18 - p),
        };
        let no = match rng.below(6) {
            0 => ntarget,
            1 => ntarget.saturating_add(1),
            2 => ntarget.saturating_sub(1),
            3 => 0,
            4 => rest2,
            _ => upto(rng, rest2),
        }
        .min(rest2);
        let rest3 = rest2 - no;
        let ve = match rng.below(3) { 0 => 0, 1 => rest3, _ => upto(rng, rest3) };
        let thr = match kind {
            "count" => Threshold::AbsoluteCount { weight },
            "pct" => Threshold::AbsolutePercentage { percentage: Decimal::new(Uint128::new(p)) },
            _ => Threshold::ThresholdQuorum { threshold: Decimal::new(Uint128::new(p)), quorum: Decimal::new(Uint128::new(q)) },
        };
        let c = Case { thr, total: t, v: [y, no, ab, ve], expired };
        let (pa, re, panic, st, _) = eval(&c);
        out.emit(&json!({"act":"bigcase","ok":true,"anom":[],"dec9":dec9,
            "thr":{"kind":kind,"weight":limbs(weight as u128),"p":limbs(p),"q":limbs(q)},
            "T":limbs(t as u128),"v":{"yes":limbs(y as u128),"no":limbs(no as u128),"abstain":limbs(ab as u128),"veto":limbs(ve as u128)},
            "expired":expired,"passed":pa,"rejected":re,"status":st,"panic":panic,
            "dbg":{"T":t.to_string(),"yes":y.to_string(),"no":no.to_string(),"abstain":ab.to_string(),"veto":ve.to_string(),"p":p.to_string(),"q":q.to_string(),"weight":weight.to_string()}}));
    }
}

/// re-evaluate the cases of a replay file (ndjson of recorded events) on the current tree
pub fn replay(path: &str, out: &mut Out) {
    use std::io::BufRead;
    let f = std::fs::File::open(path).unwrap_or_else(|e| panic!("cannot open {path}: {e}"));
    emit_reset(out, 1, "replay");
    for line in std::io::BufReader::new(f).lines() {
        let line = line.unwrap();
        let Ok(e) = serde_json::from_str::<Value>(&line) else { continue };
        let act = e["act"].as_str().unwrap_or("");
        if act == "case" {
            let th = &e["thr"];
            let kind = th["kind"].as_str().unwrap();
            let c = Case { thr: thr_small(kind, th["weight"].as_u64().unwrap(), th["p"].as_u64().unwrap(), th["q"].as_u64().unwrap()), total: e["T"].as_u64().unwrap(),
                v: [e["v"]["yes"].as_u64().unwrap(), e["v"]["no"].as_u64().unwrap(), e["v"]["abstain"].as_u64().unwrap(), e["v"]["veto"].as_u64().unwrap()], expired: e["expired"].as_bool().unwrap() };
            let (p, r, panic, st, _) = eval(&c);
            let mut n = e.clone();
            n["passed"] = json!(p); n["rejected"] = json!(r); n["status"] = json!(st); n["panic"] = json!(panic);
            out.emit(&n);
        } else if act == "bigcase" {
            let d = &e["dbg"];
            let g = |k: &str| -> u64 { d[k].as_str().unwrap().parse().unwrap() };
            let gp = |k: &str| -> u128 { d[k].as_str().unwrap().parse().unwrap() };
            let kind = e["thr"]["kind"].as_str().unwrap();
            let thr = match kind {
                "count" => Threshold::AbsoluteCount { weight: g("weight") },
                "pct" => Threshold::AbsolutePercentage { percentage: Decimal::new(Uint128::new(gp("p"))) },
                _ => Threshold::ThresholdQuorum { threshold: Decimal::new(Uint128::new(gp("p"))), quorum: Decimal::new(Uint128::new(gp("q"))) },
            };
            let c = Case { thr, total: g("T"), v: [g("yes"), g("no"), g("abstain"), g("veto")], expired: e["expired"].as_bool().unwrap() };
            let (p, r, panic, st, _) = eval(&c);
            let mut n = e.clone();
            n["passed"] = json!(p); n["rejected"] = json!(r); n["status"] = json!(st); n["panic"] = json!(panic);
            out.emit(&n);
        }
    }
}
