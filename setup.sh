#!/bin/sh
# Build the conformance harness offline (path dependencies on /repo) and parse every specification.
set -e
cd "$(dirname "$0")"
export CARGO_NET_OFFLINE=true
export CARGO_TARGET_DIR="$(pwd)/harness/target"
(cd harness && cargo build --release --offline)
JAR=/opt/veriftools/tla/tla2tools.jar
for f in spec/*/*.tla; do
  (cd "$(dirname "$f")" && java -DTLA-Library="$(pwd)/../common" -cp $JAR:/opt/veriftools/tla/CommunityModules-deps.jar tla2sany.SANY "$(basename "$f")" > /tmp/sany.$$ 2>&1) || true
  if grep -q "Semantic errors\|Parse Error\|\*\*\* Errors\|Could not find module\|Fatal" /tmp/sany.$$; then echo "SANY failed on $f"; cat /tmp/sany.$$ | tail -20; rm -f /tmp/sany.$$; exit 1; fi
done
rm -f /tmp/sany.$$
echo setup ok
