#!/bin/sh
# Build the conformance harness offline (path dependencies on /repo) and parse every specification.
set -e
cd "$(dirname "$0")"
export CARGO_NET_OFFLINE=true
export CARGO_TARGET_DIR="$(pwd)/harness/target"
(cd harness && cargo build --release --offline)
for f in spec/*/*.tla; do
  (cd "$(dirname "$f")" && tla-sany "$(basename "$f")" > /dev/null) || { echo "SANY failed on $f"; exit 1; }
done
echo setup ok
